(* Theorems about the model of lox's semantic analysis (Gen/Analyze.v), C17.

   A2' analyze_accepts_iff   : analyze s = [] <-> well_formed_weak s = true
       (well_formed_weak = well_formed minus the shape of parser rule names;
        analyze_rejects_iff_modulo_rule_names: with valid rule names,
        analyze s = [] <-> well_formed s = true)
   A1  analyze_sound_for_wf  : well_formed s = true -> analyze s = []
   and  expand_fuel_enough    : the fuel of the macro expansion never runs out.
   (A2 refutations and A4 examples: AnalyzeExamples.v; A3: AnalyzeBlame.v.)

   Plan: CreateNames is a recursion over the declaration TREE (a rejected mode
   hides its body); when it logs nothing it coincides with a fold over the
   FLAT list [all_decls] (tree_flat_decls), and that fold logs nothing iff the
   names are valid, pairwise distinct and at most one rule is @start, in which
   case the final context is [canon s] (pass_names_char).  Check and
   GenerateGrammar are flat traversals, characterised pointwise. *)
From Coq Require Import List String Ascii ZArith Bool Arith Lia.
From Lox Require Import Gen.Analyze.
Import ListNotations.

Lemma flat_map_nil {A B : Type} (f : A -> list B) (l : list A) :
  flat_map f l = [] <-> (forall x, In x l -> f x = []).
Proof.
  induction l as [|a l IH]; simpl.
  - split; [intros _ x []|reflexivity].
  - split.
    + intros H. apply app_eq_nil in H. destruct H as [Ha Hl].
      intros x [Hx|Hx]; [subst; assumption|]. apply IH; assumption.
    + intros H. rewrite (H a (or_introl eq_refl)). simpl. apply IH.
      intros x Hx. apply H. right; assumption.
Qed.

Lemma app_nil_iff {A : Type} (l1 l2 : list A) : l1 ++ l2 = [] <-> l1 = [] /\ l2 = [].
Proof.
  split; [apply app_eq_nil|]. intros [H1 H2]; subst; reflexivity.
Qed.

Lemma cn_decl_mode id n body st :
  cn_decl (DMode id n body) st =
  let '(st1, d1) := cn_own (DMode id n body) st in
  match d1 with [] => cn_decls body st1 | _ => (st1, d1) end.
Proof. reflexivity. Qed.

Lemma cn_decl_other d st :
  (match d with DMode _ _ _ => False | _ => True end) ->
  cn_decl d st = cn_own d st.
Proof.
  destruct d; intros H; try contradiction; unfold cn_decl;
  match goal with |- (let '(_, _) := ?x in _) = _ => destruct x; reflexivity end.
Qed.

Lemma decl_ind' (P : decl -> Prop) :
  (forall id n e a, P (DToken id n e a)) ->
  (forall id e a, P (DFrag id e a)) ->
  (forall id n e, P (DMacro id n e)) ->
  (forall id ns, P (DExternal id ns)) ->
  (forall id n body, Forall P body -> P (DMode id n body)) ->
  (forall id b n pr, P (DRule id b n pr)) ->
  forall d, P d.
Proof.
  intros HT HF HM HE HMo HR. fix IH 1.
  intros [id n e a|id e a|id n e|id ns|id n body|id b n pr];
    [apply HT|apply HF|apply HM|apply HE| |apply HR].
  apply HMo. revert body. fix IHb 1. intros [|d r]; constructor; [apply IH | apply IHb].
Qed.

(* ---- sequencing -------------------------------------------------- *)
Definition seq2 (f g : nstate -> nstate * list diag) (st : nstate) : nstate * list diag :=
  let '(st1, d1) := f st in let '(st2, d2) := g st1 in (st2, d1 ++ d2).

Lemma seq2_ok f g st st' :
  seq2 f g st = (st', []) <-> exists st1, f st = (st1, []) /\ g st1 = (st', []).
Proof.
  unfold seq2. destruct (f st) as [s1 d1] eqn:Ef. destruct (g s1) as [s2 d2] eqn:Eg. split.
  - intros H. inversion H as [[H1 H2]]. apply app_eq_nil in H2. destruct H2; subst.
    exists s1. split; [reflexivity|assumption].
  - intros [st1 [H1 H2]]. inversion H1; subst. rewrite Eg in H2. inversion H2; subst. reflexivity.
Qed.

Fixpoint cn_flat (ds : list decl) (st : nstate) : nstate * list diag :=
  match ds with
  | [] => (st, [])
  | d :: r => seq2 (cn_own d) (cn_flat r) st
  end.

Lemma cn_decls_cons d r st : cn_decls (d :: r) st = seq2 (cn_decl d) (cn_decls r) st.
Proof. reflexivity. Qed.

Lemma cn_flat_app l1 l2 st st' :
  cn_flat (l1 ++ l2) st = (st', []) <->
  exists st1, cn_flat l1 st = (st1, []) /\ cn_flat l2 st1 = (st', []).
Proof.
  revert st. induction l1 as [|d l1 IH]; intros st; simpl.
  - split.
    + intros H. exists st. split; [reflexivity|assumption].
    + intros [st1 [H1 H2]]. inversion H1; subst. assumption.
  - rewrite seq2_ok. split.
    + intros [sa [Ha Hb]]. apply IH in Hb. destruct Hb as [sb [Hb1 Hb2]].
      exists sb. split; [|assumption]. apply seq2_ok. exists sa. split; assumption.
    + intros [sb [Hb1 Hb2]]. apply seq2_ok in Hb1. destruct Hb1 as [sa [Ha Hb1]].
      exists sa. split; [assumption|]. apply IH. exists sb. split; assumption.
Qed.

Lemma tree_flat_decl d : forall st st',
  cn_decl d st = (st', []) <-> cn_flat (flat_decl d) st = (st', []).
Proof.
  induction d as [id n e a|id e a|id n e|id ns|id n body IHb|id b n pr] using decl_ind';
    intros st st';
    try (rewrite cn_decl_other by exact I; simpl; rewrite seq2_ok; split;
         [intros H; eexists; split; [exact H|reflexivity]
         |intros [s1 [H1 H2]]; inversion H2; subst; exact H1]).
  rewrite cn_decl_mode.
  change (flat_decl (DMode id n body)) with (DMode id n body :: flat_map flat_decl body).
  simpl cn_flat. rewrite seq2_ok.
  assert (HL : forall st st', cn_decls body st = (st', []) <->
                              cn_flat (flat_map flat_decl body) st = (st', [])).
  { clear st st'. induction IHb as [|d r Hd Hr IHr]; intros st st'.
    - simpl. tauto.
    - rewrite cn_decls_cons, seq2_ok. simpl flat_map. rewrite cn_flat_app.
      split; intros [s1 [H1 H2]]; exists s1; (split; [apply Hd|apply IHr]; assumption). }
  destruct (cn_own (DMode id n body) st) as [s1 d1] eqn:E. split.
  - destruct d1 as [|x d1]; intros H.
    + exists s1. split; [reflexivity|]. apply HL. assumption.
    + discriminate H.
  - intros [s2 [H1 H2]]. inversion H1; subst. apply HL. assumption.
Qed.

Lemma tree_flat_decls ds : forall st st',
  cn_decls ds st = (st', []) <-> cn_flat (flat_map flat_decl ds) st = (st', []).
Proof.
  induction ds as [|d r IH]; intros st st'.
  - simpl. tauto.
  - rewrite cn_decls_cons, seq2_ok. simpl flat_map. rewrite cn_flat_app.
    split; intros [s1 [H1 H2]]; exists s1; (split; [apply tree_flat_decl|apply IH]; assumption).
Qed.

(* ---- names: sequential uniqueness -------------------------------- *)
Fixpoint uniq_from (seen l : list string) : bool :=
  match l with
  | [] => true
  | x :: r => negb (mem_str x seen) && uniq_from (seen ++ [x]) r
  end.

Lemma mem_str_app x l1 l2 : mem_str x (l1 ++ l2) = mem_str x l1 || mem_str x l2.
Proof. unfold mem_str. apply existsb_app. Qed.

Lemma mem_str_In x l : mem_str x l = true <-> In x l.
Proof.
  unfold mem_str. rewrite existsb_exists. split.
  - intros [y [Hy He]]. apply String.eqb_eq in He. subst. assumption.
  - intros H. exists x. split; [assumption|apply String.eqb_refl].
Qed.

Lemma uniq_from_app seen l1 l2 :
  uniq_from seen (l1 ++ l2) = uniq_from seen l1 && uniq_from (seen ++ l1) l2.
Proof.
  revert seen. induction l1 as [|x l1 IH]; intros seen; simpl.
  - rewrite app_nil_r. reflexivity.
  - rewrite IH, <- app_assoc. simpl. rewrite andb_assoc. reflexivity.
Qed.

Lemma nodupb_snoc seen x : nodupb (seen ++ [x]) = nodupb seen && negb (mem_str x seen).
Proof.
  induction seen as [|a seen IH]; simpl.
  - reflexivity.
  - rewrite IH, mem_str_app. simpl. rewrite orb_false_r.
    assert (Hs : String.eqb a x = String.eqb x a) by apply String.eqb_sym.
    rewrite Hs. destruct (mem_str a seen), (String.eqb x a), (nodupb seen), (mem_str x seen); reflexivity.
Qed.

Lemma nodupb_uniq_from seen l : nodupb (seen ++ l) = nodupb seen && uniq_from seen l.
Proof.
  revert seen. induction l as [|x l IH]; intros seen; simpl.
  - rewrite app_nil_r, andb_true_r. reflexivity.
  - change (seen ++ x :: l) with (seen ++ [x] ++ l). rewrite app_assoc, IH, nodupb_snoc.
    rewrite andb_assoc. reflexivity.
Qed.

Lemma nodupb_NoDup l : nodupb l = true <-> NoDup l.
Proof.
  induction l as [|x l IH]; simpl.
  - split; [constructor|reflexivity].
  - rewrite andb_true_iff, negb_true_iff, IH. split.
    + intros [H1 H2]. constructor; [|assumption]. intros Hin. apply mem_str_In in Hin. congruence.
    + intros H. inversion H; subst. split; [|assumption].
      destruct (mem_str x l) eqn:E; [|reflexivity]. apply mem_str_In in E. contradiction.
Qed.

Lemma lookup_none n t : lookup n t = None <-> mem_str n (map fst t) = false.
Proof.
  induction t as [|[m e] t IH]; simpl.
  - tauto.
  - destruct (String.eqb n m); simpl; [split; discriminate|exact IH].
Qed.

Lemma lookup_In n t e : lookup n t = Some e -> In (n, e) t.
Proof.
  induction t as [|[m e'] t IH]; simpl; [discriminate|].
  destruct (String.eqb n m) eqn:E.
  - intros H. inversion H; subst. apply String.eqb_eq in E. subst. left; reflexivity.
  - intros H. right. apply IH. assumption.
Qed.

(* ---- cn_name ----------------------------------------------------- *)
Definition name_ok (v : bool) (n : string) (st : nstate) : bool :=
  (negb v || token_name_ok n) && negb (mem_str n (map fst (n_names st))).

Lemma cn_name_spec v n e id st :
  if name_ok v n st then cn_name v n e id st = (add_name n e st, [])
  else exists k, cn_name v n e id st = (st, [(k, Some id)]) /\
                 (k = KBadName \/ k = KReservedName \/ k = KRedefined).
Proof.
  unfold name_ok, cn_name, token_name_ok.
  destruct (lookup n (n_names st)) as [x|] eqn:El.
  - assert (Hm : mem_str n (map fst (n_names st)) = true).
    { destruct (mem_str n (map fst (n_names st))) eqn:E; [reflexivity|].
      apply lookup_none in E. congruence. }
    rewrite Hm, andb_false_r.
    destruct v; [destruct (validate_token_name n)|]; eexists; split; try reflexivity; auto.
  - apply lookup_none in El. rewrite El. simpl. rewrite andb_true_r.
    destruct v; [destruct (validate_token_name n)|]; simpl; try reflexivity;
      eexists; split; try reflexivity; auto.
Qed.

Lemma cn_name_ok v n e id st st' :
  cn_name v n e id st = (st', []) <-> name_ok v n st = true /\ st' = add_name n e st.
Proof.
  pose proof (cn_name_spec v n e id st) as H. destruct (name_ok v n st).
  - rewrite H. split; [intros E; inversion E; auto|intros [_ E]; subst; reflexivity].
  - destruct H as [k [H _]]. rewrite H. split; [discriminate|intros [E _]; discriminate].
Qed.

(* ---- cn_own ------------------------------------------------------ *)
Definition ext1 (st : nstate) (d : decl) : nstate :=
  mkN (n_names st ++ own_names d) (n_aliases st ++ own_aliases d) (n_modes st ++ own_modes d)
      (n_start st || is_start d) (n_rules st || is_rule d).

Lemma names_add_name n e st :
  map fst (n_names (add_name n e st)) = map fst (n_names st) ++ [n].
Proof. simpl. rewrite map_app. reflexivity. Qed.

Lemma cn_ext_ok id ns : forall st st',
  cn_ext id ns st = (st', []) <->
  forallb token_name_ok ns = true /\ uniq_from (map fst (n_names st)) ns = true /\
  st' = mkN (n_names st ++ map (fun n => (n, EExternal id)) ns)
            (n_aliases st) (n_modes st) (n_start st) (n_rules st).
Proof.
  induction ns as [|n ns IH]; intros st st'.
  - simpl. rewrite app_nil_r. destruct st. simpl. split.
    + intros H. inversion H. auto.
    + intros [_ [_ H]]. subst. reflexivity.
  - change (cn_ext id (n :: ns) st) with
      (seq2 (cn_name true n (EExternal id) id) (cn_ext id ns) st).
    rewrite seq2_ok. simpl forallb. simpl uniq_from. simpl map. split.
    + intros [s1 [H1 H2]]. apply cn_name_ok in H1. destruct H1 as [Hn Hs]. subst s1.
      apply IH in H2. destruct H2 as [Hf [Hu Hst]]. unfold name_ok in Hn. simpl in Hn.
      apply andb_true_iff in Hn. destruct Hn as [Hn1 Hn2].
      rewrite names_add_name in Hu. rewrite Hn1, Hn2, Hf, Hu. repeat split.
      rewrite Hst. simpl. rewrite <- app_assoc. reflexivity.
    + intros [Hf [Hu Hst]]. apply andb_true_iff in Hf. destruct Hf as [Hf1 Hf2].
      apply andb_true_iff in Hu. destruct Hu as [Hu1 Hu2].
      exists (add_name n (EExternal id) st). split.
      * apply cn_name_ok. split; [|reflexivity]. unfold name_ok. simpl. rewrite Hf1, Hu1. reflexivity.
      * apply IH. rewrite names_add_name. repeat split; try assumption.
        rewrite Hst. simpl. rewrite <- app_assoc. reflexivity.
Qed.

Lemma nstate_eta st : st = mkN (n_names st) (n_aliases st) (n_modes st) (n_start st) (n_rules st).
Proof. destruct st; reflexivity. Qed.

Ltac fin := repeat split; auto; try (intros; discriminate).

Lemma cn_own_ok d st st' :
  cn_own d st = (st', []) <->
  lexical_name_ok d = true /\
  uniq_from (map fst (n_names st)) (map fst (own_names d)) = true /\
  (is_start d = true -> n_start st = false) /\
  st' = ext1 st d.
Proof.
  destruct d as [id n e a|id e a|id n e|id ns|id n body|id b n pr]; unfold ext1; simpl.
  - (* token *)
    pose proof (cn_name_spec true n (EToken id) id st) as H. unfold name_ok in H. simpl in H.
    rewrite ?orb_false_r, ?andb_true_r.
    destruct (token_name_ok n && negb (mem_str n (map fst (n_names st)))) eqn:E.
    + rewrite H. apply andb_true_iff in E. destruct E as [E1 E2]. rewrite E1, E2.
      destruct (simple_literal e); simpl; rewrite ?app_nil_r; split.
      * intros X. inversion X. repeat split; auto; discriminate.
      * intros [_ [_ [_ X]]]. subst. reflexivity.
      * intros X. inversion X. repeat split; auto; discriminate.
      * intros [_ [_ [_ X]]]. subst. reflexivity.
    + destruct H as [k [H _]]. rewrite H. split; [discriminate|].
      intros [X1 [X2 _]]. rewrite X1, X2 in E. discriminate.
  - (* frag *)
    rewrite !app_nil_r, !orb_false_r. split.
    + intros X. inversion X. subst. destruct st'; simpl; fin.
    + intros [_ [_ [_ X]]]. subst. destruct st; reflexivity.
  - (* macro *)
    rewrite cn_name_ok. unfold name_ok. simpl. rewrite !app_nil_r, !orb_false_r, andb_true_r.
    rewrite andb_true_iff. split.
    + intros [[X1 X2] X3]. subst. fin.
    + intros [X1 [X2 [_ X3]]]. subst. fin.
  - (* external *)
    rewrite cn_ext_ok. rewrite map_map. simpl. rewrite map_id, !app_nil_r, !orb_false_r.
    split; intros [X1 [X2 X3]]; fin; tauto.
  - (* mode *)
    pose proof (cn_name_spec false n (EMode id) id st) as H. unfold name_ok in H. simpl in H.
    rewrite ?andb_true_r, ?app_nil_r, ?orb_false_r.
    destruct (negb (mem_str n (map fst (n_names st)))) eqn:E.
    + rewrite H. simpl. split.
      * intros X. inversion X. fin.
      * intros [_ [_ [_ X]]]. subst. reflexivity.
    + destruct H as [k [H _]]. rewrite H. split; [discriminate|].
      intros [_ [X _]]. discriminate.
  - (* rule *)
    pose proof (cn_name_spec false n (ERule id) id (set_rules st)) as H.
    unfold name_ok in H. simpl in H.
    rewrite ?andb_true_r, ?app_nil_r, ?orb_true_r, ?orb_false_r.
    destruct (negb (mem_str n (map fst (n_names st)))) eqn:E.
    + rewrite H. simpl. destruct b; simpl.
      * destruct (n_start st) eqn:Es; simpl.
        -- split; [discriminate|]. intros [_ [_ [X _]]]. specialize (X eq_refl). discriminate.
        -- split.
           ++ intros X. inversion X. fin.
           ++ intros [_ [_ [_ X]]]. subst. reflexivity.
      * rewrite ?orb_false_r. split.
        -- intros X. inversion X. fin.
        -- intros [_ [_ [_ X]]]. subst. reflexivity.
    + destruct H as [k [H _]]. rewrite H. split; [discriminate|].
      intros [_ [X _]]. discriminate.
Qed.

(* ---- the flat fold ----------------------------------------------- *)
Definition starts_ok (b : bool) (ds : list decl) : bool :=
  Nat.b2n b + List.length (filter is_start ds) <=? 1.

Lemma starts_step b d r :
  starts_ok b (d :: r) = true <->
  (is_start d = true -> b = false) /\ starts_ok (b || is_start d) r = true.
Proof.
  unfold starts_ok. simpl. destruct (is_start d) eqn:Ed, b; simpl; rewrite ?Nat.leb_le.
  - split; [intros H; exfalso; lia|intros [H _]; specialize (H eq_refl); discriminate].
  - split; [intros H; split; [reflexivity|lia]|intros [_ H]; lia].
  - split; [intros H; split; [discriminate|lia]|intros [_ H]; lia].
  - split; [intros H; split; [discriminate|lia]|intros [_ H]; lia].
Qed.

Lemma fold_ext ds : forall st,
  fold_left ext1 ds st =
  mkN (n_names st ++ flat_map own_names ds) (n_aliases st ++ flat_map own_aliases ds)
      (n_modes st ++ flat_map own_modes ds)
      (n_start st || existsb is_start ds) (n_rules st || existsb is_rule ds).
Proof.
  induction ds as [|d r IH]; intros st; simpl.
  - rewrite !app_nil_r, !orb_false_r. apply nstate_eta.
  - rewrite IH. unfold ext1. simpl. rewrite <- !app_assoc, <- !orb_assoc. reflexivity.
Qed.

Lemma cn_flat_ok ds : forall st st',
  cn_flat ds st = (st', []) <->
  forallb lexical_name_ok ds = true /\
  uniq_from (map fst (n_names st)) (map fst (flat_map own_names ds)) = true /\
  starts_ok (n_start st) ds = true /\
  st' = fold_left ext1 ds st.
Proof.
  induction ds as [|d r IH]; intros st st'.
  - simpl. split.
    + intros H. inversion H. unfold starts_ok. simpl. destruct (n_start st'); fin.
    + intros [_ [_ [_ H]]]. subst. reflexivity.
  - simpl cn_flat. rewrite seq2_ok. simpl forallb. simpl flat_map. simpl fold_left.
    rewrite map_app, uniq_from_app, starts_step. split.
    + intros [s1 [H1 H2]]. apply cn_own_ok in H1. destruct H1 as [A1 [A2 [A3 A4]]]. subst s1.
      apply IH in H2. destruct H2 as [B1 [B2 [B3 B4]]]. simpl in B2, B3. rewrite map_app in B2.
      rewrite A1, A2, B1, B2. fin.
    + intros [A1 [A2 [[A3 B3] B4]]]. apply andb_true_iff in A1. destruct A1 as [A1 B1].
      apply andb_true_iff in A2. destruct A2 as [A2 B2].
      exists (ext1 st d). split.
      * apply cn_own_ok. fin.
      * apply IH. simpl. rewrite map_app. fin.
Qed.

Lemma pass_names_char s st' :
  pass_names s = (st', []) <->
  wf_lexical_names s = true /\ wf_unique s = true /\ (count_start s <=? 1) = true /\
  st' = canon s.
Proof.
  unfold pass_names. rewrite tree_flat_decls, cn_flat_ok, fold_ext.
  fold (all_decls s). unfold wf_lexical_names, wf_unique, count_start, canon, starts_ok.
  simpl. pose proof (nodupb_uniq_from [] (map fst (flat_map own_names (all_decls s)))) as H.
  simpl in H. rewrite H. tauto.
Qed.

Lemma flat_map_forallb {A B : Type} (f : A -> list B) (p : A -> bool) (l : list A) :
  (forall x, f x = [] <-> p x = true) -> (flat_map f l = [] <-> forallb p l = true).
Proof.
  intros H. rewrite flat_map_nil, forallb_forall. split; intros X x Hx; apply H, X, Hx.
Qed.

Lemma forallb_andb {A : Type} (p q : A -> bool) (l : list A) :
  forallb (fun x => p x && q x) l = forallb p l && forallb q l.
Proof.
  induction l as [|a l IH]; simpl; [reflexivity|]. rewrite IH.
  destruct (p a), (q a), (forallb p l), (forallb q l); reflexivity.
Qed.

Lemma forallb_ext' {A : Type} (p q : A -> bool) (l : list A) :
  (forall x, p x = q x) -> forallb p l = forallb q l.
Proof. intros H. induction l as [|a l IH]; simpl; [reflexivity|]. rewrite H, IH. reflexivity. Qed.

Lemma forallb2_andb {A : Type} (p q : A -> bool) (l : list (list A)) :
  forallb (forallb (fun x => p x && q x)) l = forallb (forallb p) l && forallb (forallb q) l.
Proof.
  rewrite <- forallb_andb. apply forallb_ext'. intros x. apply forallb_andb.
Qed.

(* ---- Check ------------------------------------------------------- *)
Lemma ck_range_ok id it : ck_range id it = [] <-> (fst it <=? snd it)%Z = true.
Proof.
  unfold ck_range. rewrite Z.ltb_antisym.
  destruct (fst it <=? snd it)%Z; simpl; split; intros; try discriminate; reflexivity.
Qed.

Lemma ck_atom_ok st id a :
  ck_atom st id a = [] <-> atom_ref_ok st a && atom_lit_ok a && atom_ranges_ok a = true.
Proof.
  destruct a as [cps|n|c|alts]; simpl.
  - destruct cps; simpl; split; intros; try discriminate; reflexivity.
  - destruct (lookup n (n_names st)) as [[]|]; simpl; split; intros; try discriminate; reflexivity.
  - apply flat_map_forallb. apply ck_range_ok.
  - tauto.
Qed.

Lemma ck_action_ok st id a :
  ck_action st id a = [] <-> action_ref_ok st a && action_mode_ok st a = true.
Proof.
  destruct a as [|m| |t]; simpl; try tauto.
  - destruct (mem_str m (n_modes st)); simpl; split; intros; try discriminate; reflexivity.
  - destruct (lookup t (n_names st)) as [[]|]; simpl; split; intros; try discriminate; reflexivity.
Qed.

Definition pterm_ok (st : nstate) (t : pterm) : bool :=
  pterm_ref_ok st t && pterm_alias_ok st t && pterm_lit_ok t && pterm_lists_ok t.

Lemma ck_pterm_ok st id t : ck_pterm st id t = [] <-> pterm_ok st t = true.
Proof.
  unfold pterm_ok. induction t as [n|lit| |k c IH|e IHe sp IHsp opt]; simpl.
  - destruct (lookup n (n_names st)) as [[]|]; simpl; split; intros; try discriminate; reflexivity.
  - destruct (String.eqb lit ""); simpl; [split; intros; discriminate|].
    destruct (count_str lit (n_aliases st)) as [|[|c]]; simpl; split; intros; try discriminate; reflexivity.
  - tauto.
  - exact IH.
  - rewrite !app_nil_iff, IHe, IHsp.
    destruct (pterm_ref_ok st e), (pterm_alias_ok st e), (pterm_lit_ok e), (pterm_lists_ok e),
      (pterm_ref_ok st sp), (pterm_alias_ok st sp), (pterm_lit_ok sp), (pterm_lists_ok sp),
      (pterm_simple e), (pterm_simple sp); simpl;
      split; intros H; try reflexivity; try discriminate;
        try (intuition discriminate); repeat split; reflexivity.
Qed.

(* the cycle walk of the Check pass is the head of the full expansion *)
Lemma acyclic_atoms_nil tbl fuel stk l :
  flat_map (expand_atom tbl fuel stk) l = [] <-> acyclic_atoms tbl fuel stk l = true.
Proof.
  unfold acyclic_atoms. destruct (flat_map (expand_atom tbl fuel stk) l); split; intros; try discriminate; reflexivity.
Qed.


Lemma first_some_hd {A B : Type} (f : A -> option B) (g : A -> list B) (l : list A) :
  (forall a, f a = hd_error (g a)) -> first_some f l = hd_error (flat_map g l).
Proof.
  intros H. induction l as [|a r IH]; simpl; [reflexivity|].
  rewrite H. destruct (g a); simpl; [exact IH|reflexivity].
Qed.

Lemma cyc_atom_hd tbl : forall fuel stk a,
  cyc_atom tbl fuel stk a = hd_error (expand_atom tbl fuel stk a).
Proof.
  induction fuel as [|f IH]; intros stk a; destruct a as [cps|n|c|alts]; simpl; try reflexivity;
    destruct (lookup n tbl) as [[id|mid body|id|id|id]|]; try reflexivity;
    destruct (mem_str n stk); try reflexivity.
  apply first_some_hd. intros a. apply IH.
Qed.

Lemma macro_cycle_diag_hd tbl n e :
  macro_cycle_diag tbl n e =
  match flat_map (expand_atom tbl (List.length tbl) [n]) (lexpr_atoms e) with
  | [] => [] | x :: _ => [x] end.
Proof.
  unfold macro_cycle_diag. rewrite (first_some_hd _ _ _ (cyc_atom_hd tbl (List.length tbl) [n])).
  destruct (flat_map _ _); reflexivity.
Qed.

Lemma macro_cycle_diag_nil tbl n e :
  macro_cycle_diag tbl n e = [] <->
  acyclic_atoms tbl (List.length tbl) [n] (lexpr_atoms e) = true.
Proof.
  rewrite macro_cycle_diag_hd, <- acyclic_atoms_nil.
  destruct (flat_map _ _); split; intros; try discriminate; reflexivity.
Qed.

Lemma macro_cycle_diag_In tbl n e x :
  In x (macro_cycle_diag tbl n e) ->
  In x (flat_map (expand_atom tbl (List.length tbl) [n]) (lexpr_atoms e)).
Proof.
  rewrite macro_cycle_diag_hd. destruct (flat_map _ _); simpl; [tauto|].
  intros [H|[]]. left. exact H.
Qed.

Definition decl_check_ok (st : nstate) (d : decl) : bool :=
  decl_refs_ok st d && decl_aliases_ok st d && decl_modes_ok st d &&
  decl_literals_ok d && forallb atom_ranges_ok (decl_atoms d) && decl_lists_ok d &&
  macro_acyclic (n_names st) d.

Lemma lexpr_part_ok st id e :
  ck_lexpr st id e = [] <->
  forallb (atom_ref_ok st) (lexpr_atoms e) && forallb atom_lit_ok (lexpr_atoms e) &&
  forallb atom_ranges_ok (lexpr_atoms e) = true.
Proof.
  unfold ck_lexpr. rewrite (flat_map_forallb _ _ _ (ck_atom_ok st id)), !forallb_andb. tauto.
Qed.

Lemma lexer_part_ok st id e acts :
  ck_lexpr st id e ++ flat_map (ck_action st id) acts = [] <->
  (forallb (atom_ref_ok st) (lexpr_atoms e) && forallb (action_ref_ok st) acts) &&
  forallb (action_mode_ok st) acts && forallb atom_lit_ok (lexpr_atoms e) &&
  forallb atom_ranges_ok (lexpr_atoms e) = true.
Proof.
  rewrite app_nil_iff, lexpr_part_ok.
  rewrite (flat_map_forallb _ _ _ (ck_action_ok st id)), !forallb_andb.
  destruct (forallb (atom_ref_ok st) (lexpr_atoms e)), (forallb atom_lit_ok (lexpr_atoms e)),
    (forallb atom_ranges_ok (lexpr_atoms e)),
    (forallb (action_ref_ok st) acts), (forallb (action_mode_ok st) acts); simpl;
    split; intros H; try reflexivity; try discriminate; try (destruct H; discriminate); auto.
Qed.

Lemma ck_decl_ok st d : ck_decl st false d = [] <-> decl_check_ok st d = true.
Proof.
  unfold decl_check_ok, decl_literals_ok.
  destruct d as [id n e a|id e a|id n e|id ns|id n body|id b n pr]; simpl; try tauto.
  - unfold decl_atoms. simpl. rewrite !andb_true_r. rewrite lexer_part_ok.
    rewrite !andb_true_iff. tauto.
  - unfold decl_atoms. simpl. rewrite !andb_true_r. rewrite lexer_part_ok.
    rewrite !andb_true_iff. tauto.
  - unfold decl_atoms. simpl. rewrite !andb_true_r. rewrite app_nil_iff. split.
    + intros [H1 H2]. rewrite H1 in H2. simpl in H2.
      apply lexpr_part_ok in H1. apply macro_cycle_diag_nil in H2.
      rewrite !andb_true_iff in *. tauto.
    + intros H. rewrite !andb_true_iff in H. destruct H as [[[H1 H2] H3] H4].
      assert (X : ck_lexpr st id e = []).
      { apply lexpr_part_ok. rewrite H1, H2, H3. reflexivity. }
      split; [exact X|]. rewrite X. simpl. apply macro_cycle_diag_nil. exact H4.
  - unfold decl_atoms. simpl. rewrite !andb_true_r.
    rewrite (flat_map_forallb _ (forallb (pterm_ok st))).
    + unfold pterm_ok. rewrite !forallb2_andb, !andb_true_iff. tauto.
    + intros x. apply flat_map_forallb. apply ck_pterm_ok.
Qed.

Lemma ck_decls_nil st err ds :
  ck_decls st err ds = [] <-> forall d, In d ds -> ck_decl st err d = [].
Proof.
  revert err. induction ds as [|d r IH]; intros err; simpl.
  - split; [intros _ x []|reflexivity].
  - rewrite app_nil_iff. split.
    + intros [H1 H2]. rewrite H1 in H2. simpl in H2. rewrite orb_false_r in H2.
      intros x [X|X]; [subst; exact H1|]. apply (proj1 (IH err) H2). exact X.
    + intros H. assert (H1 := H d (or_introl eq_refl)). split; [exact H1|].
      rewrite H1. simpl. rewrite orb_false_r. apply IH. intros x X. apply H. right. exact X.
Qed.

Lemma pass_check_ok st s :
  pass_check st s = [] <-> forallb (decl_check_ok st) (all_decls s) = true.
Proof.
  unfold pass_check. rewrite ck_decls_nil, forallb_forall.
  split; intros H x Hx; apply ck_decl_ok, H, Hx.
Qed.

(* ---- GenerateGrammar --------------------------------------------- *)
Lemma token_actions_ok id acts :
  token_actions id acts = [] <->
  forallb (fun a => negb (is_discard a) && negb (is_emit a)) acts = true.
Proof.
  induction acts as [|a r IH]; simpl; [tauto|].
  destruct a; simpl; try exact IH; split; intros; discriminate.
Qed.

Lemma frag_actions_ok id acts : forall hd he,
  frag_actions id hd he acts = [] <->
  Nat.b2n hd + Nat.b2n he + List.length (filter is_discard acts) +
  List.length (filter is_emit acts) <= 1.
Proof.
  induction acts as [|a r IH]; intros hd he; simpl.
  - destruct hd, he; simpl; split; intros H; try discriminate; try reflexivity; try lia.
  - destruct a; simpl.
    + destruct hd; simpl.
      * split; intros H; [discriminate|lia].
      * rewrite IH. simpl. lia.
    + apply IH.
    + apply IH.
    + destruct he; simpl.
      * split; intros H; [discriminate|lia].
      * rewrite IH. simpl. lia.
Qed.

Definition decl_gen_ok (tbl : names) (d : decl) : bool :=
  rule_acyclic tbl d && decl_token_actions_ok d && decl_frag_actions_ok d.

Lemma gen_decl_ok st d : gen_decl st d = [] <-> decl_gen_ok (n_names st) d = true.
Proof.
  unfold decl_gen_ok. destruct d as [id n e a|id e a|id n e|id ns|id n body|id b n pr]; simpl;
    try tauto.
  - rewrite app_nil_iff, andb_true_r, andb_true_iff. unfold expand_lexpr.
    rewrite acyclic_atoms_nil, token_actions_ok. tauto.
  - rewrite app_nil_iff, andb_true_r, andb_true_iff. unfold expand_lexpr.
    rewrite acyclic_atoms_nil, frag_actions_ok. simpl.
    split; intros [H1 H2]; (split; [exact H1|]).
    + rewrite !andb_true_iff, !Nat.leb_le. lia.
    + rewrite !andb_true_iff, !Nat.leb_le in H2. lia.
Qed.

Lemma existsb_filter {A : Type} (p : A -> bool) (l : list A) :
  existsb p l = (1 <=? List.length (filter p l)).
Proof.
  induction l as [|a l IH]; simpl; [reflexivity|]. destruct (p a); simpl; [reflexivity|exact IH].
Qed.

Lemma pass_gen_ok st s :
  pass_gen st s = [] <->
  forallb (decl_gen_ok (n_names st)) (all_decls s) = true /\
  n_rules st && negb (n_start st) = false.
Proof.
  unfold pass_gen. rewrite <- (flat_map_forallb _ _ _ (gen_decl_ok st)).
  destruct (flat_map (gen_decl st) (all_decls s)).
  - destruct (n_rules st && negb (n_start st)); split; intros H; try discriminate; auto.
    destruct H; discriminate.
  - split; intros H; [discriminate|destruct H; discriminate].
Qed.

(* ---- assembling -------------------------------------------------- *)
Lemma check_split st l :
  forallb (decl_check_ok st) l =
  forallb (decl_refs_ok st) l && forallb (decl_aliases_ok st) l &&
  forallb (decl_modes_ok st) l && forallb decl_literals_ok l &&
  forallb (fun d => forallb atom_ranges_ok (decl_atoms d)) l && forallb decl_lists_ok l &&
  forallb (macro_acyclic (n_names st)) l.
Proof. unfold decl_check_ok. rewrite !forallb_andb. reflexivity. Qed.

Lemma gen_split tbl l :
  forallb (decl_gen_ok tbl) l =
  forallb (rule_acyclic tbl) l && forallb decl_token_actions_ok l && forallb decl_frag_actions_ok l.
Proof. unfold decl_gen_ok. rewrite !forallb_andb. reflexivity. Qed.

Lemma start_char s :
  wf_start s = true <->
  (count_start s <=? 1) = true /\ n_rules (canon s) && negb (n_start (canon s)) = false.
Proof.
  unfold wf_start.
  change (n_rules (canon s)) with (existsb is_rule (all_decls s)).
  change (n_start (canon s)) with (existsb is_start (all_decls s)).
  rewrite (existsb_filter is_start). fold (count_start s).
  destruct (count_start s <=? 1), (existsb is_rule (all_decls s)), (1 <=? count_start s); simpl;
    split; intros H; try discriminate; try reflexivity; auto; destruct H; discriminate.
Qed.

Lemma In_macro_decl s n mid body :
  In (n, EMacro mid body) (n_names (canon s)) -> In (DMacro mid n body) (all_decls s).
Proof.
  intros H. unfold canon in H. simpl in H.
  apply in_flat_map in H. destruct H as [d [Hd Hin]].
  destruct d as [id m e a|id e a|id m e|id ns|id m body'|id b m pr]; simpl in Hin.
  - destruct Hin as [X|[]]. discriminate.
  - contradiction.
  - destruct Hin as [X|[]]. inversion X; subst. exact Hd.
  - apply in_map_iff in Hin. destruct Hin as [x [X _]]. discriminate.
  - destruct Hin as [X|[]]. discriminate.
  - destruct Hin as [X|[]]. discriminate.
Qed.

Lemma lookup_macro_decl s n mid body :
  lookup n (n_names (canon s)) = Some (EMacro mid body) -> In (DMacro mid n body) (all_decls s).
Proof. intros H. apply In_macro_decl. apply lookup_In. exact H. Qed.

(* no macro cycle at all: the GenerateGrammar expansion finds none *)
Lemma acyclic_all_reachable s : wf_macros_acyclic s = true -> wf_reachable_acyclic s = true.
Proof.
  unfold wf_macros_acyclic, wf_reachable_acyclic. rewrite !forallb_forall. intros H d Hd.
  assert (X : forall e, acyclic_atoms (n_names (canon s)) (expand_fuel (n_names (canon s))) []
                          (lexpr_atoms e) = true).
  { intros e. apply acyclic_atoms_nil. apply flat_map_nil. intros a _.
    remember (n_names (canon s)) as tbl eqn:Etbl.
    destruct a as [cps|n|c|alts]; try reflexivity. unfold expand_fuel. simpl.
    destruct (lookup n tbl) as [[id|mid body|id|id|id]|] eqn:El; try reflexivity.
    rewrite Etbl in El. apply lookup_macro_decl in El. apply H in El. unfold macro_acyclic in El.
    apply acyclic_atoms_nil in El. exact El. }
  destruct d; simpl; auto.
Qed.

Lemma weak_char s :
  well_formed_weak s = true <->
  (wf_lexical_names s = true /\ wf_unique s = true /\ (count_start s <=? 1) = true) /\
  forallb (decl_check_ok (canon s)) (all_decls s) = true /\
  forallb (decl_gen_ok (n_names (canon s))) (all_decls s) = true /\
  n_rules (canon s) && negb (n_start (canon s)) = false.
Proof.
  rewrite check_split, gen_split. unfold well_formed_weak. rewrite !andb_true_iff, start_char.
  pose proof (acyclic_all_reachable s) as R.
  unfold wf_refs, wf_aliases, wf_modes, wf_literals, wf_lists, wf_ranges, wf_macros_acyclic,
    wf_reachable_acyclic, wf_token_actions, wf_frag_actions in *. tauto.
Qed.

(* A2' : lox accepts exactly the specifications that satisfy every clause of
   the property but the shape of parser rule names *)
Theorem analyze_accepts_iff : forall s, analyze s = [] <-> well_formed_weak s = true.
Proof.
  intros s. rewrite weak_char. unfold analyze. destruct (pass_names s) as [st d1] eqn:E. split.
  - intros H. destruct d1 as [|x d1]; [|discriminate].
    apply pass_names_char in E. destruct E as [E1 [E2 [E3 E4]]]. subst st.
    destruct (pass_check (canon s) s) eqn:E5; [|discriminate].
    apply pass_check_ok in E5. apply pass_gen_ok in H. tauto.
  - intros [[E1 [E2 E3]] [H1 H2]].
    assert (E' : pass_names s = (canon s, [])) by (apply pass_names_char; tauto).
    rewrite E' in E. inversion E; subst.
    apply pass_check_ok in H1. rewrite H1. apply pass_gen_ok. exact H2.
Qed.

Lemma well_formed_split s :
  well_formed s = well_formed_weak s && wf_rule_names s.
Proof.
  unfold well_formed, well_formed_weak.
  destruct (wf_unique s), (wf_lexical_names s), (wf_rule_names s); simpl;
    rewrite ?andb_true_r, ?andb_false_r; reflexivity.
Qed.

Lemma wf_implies_weak s : well_formed s = true -> well_formed_weak s = true.
Proof. rewrite well_formed_split, andb_true_iff. tauto. Qed.

(* accepted = well formed, up to the names of the parser rules *)
Corollary analyze_rejects_iff_modulo_rule_names : forall s,
  wf_rule_names s = true -> (analyze s = [] <-> well_formed s = true).
Proof.
  intros s H. rewrite analyze_accepts_iff, well_formed_split, H, andb_true_r. tauto.
Qed.

(* A1 *)
Theorem analyze_sound_for_wf : forall s, well_formed s = true -> analyze s = [].
Proof. intros s H. apply analyze_accepts_iff. apply wf_implies_weak. exact H. Qed.

Print Assumptions analyze_accepts_iff.
Print Assumptions analyze_sound_for_wf.

(* [wf_unique] is NoDup of all declared names *)
Lemma wf_unique_NoDup s :
  wf_unique s = true <-> NoDup (map fst (flat_map own_names (all_decls s))).
Proof. unfold wf_unique. simpl. apply nodupb_NoDup. Qed.

(* ---- fuel ---------------------------------------------------------- *)
(* The fuel of [expand_atom] never runs out: the stack is a duplicate-free
   list of names of the table, so more fuel changes nothing. *)
Lemma expand_more_fuel tbl : forall fuel stk a extra,
  NoDup stk -> incl stk (map fst tbl) -> List.length tbl < fuel + List.length stk ->
  expand_atom tbl (fuel + extra) stk a = expand_atom tbl fuel stk a.
Proof.
  induction fuel as [|f IH]; intros stk a extra Hnd Hin Hlen.
  - exfalso. apply NoDup_incl_length in Hin; [|exact Hnd]. rewrite map_length in Hin. simpl in Hlen. lia.
  - destruct a as [cps|n|c|alts]; try reflexivity. simpl.
    destruct (lookup n tbl) as [[id|mid body|id|id|id]|] eqn:El; try reflexivity.
    destruct (mem_str n stk) eqn:Em; [reflexivity|].
    apply flat_map_ext. intros a. apply IH.
    + constructor; [|exact Hnd]. intros X. apply mem_str_In in X. congruence.
    + intros x [X|X]; [|apply Hin; exact X]. subst x. apply lookup_In in El.
      apply (in_map fst) in El. exact El.
    + simpl. lia.
Qed.

Theorem expand_fuel_enough tbl a extra :
  expand_atom tbl (expand_fuel tbl + extra) [] a = expand_atom tbl (expand_fuel tbl) [] a.
Proof.
  apply expand_more_fuel; [constructor|intros x []|]. unfold expand_fuel. simpl. lia.
Qed.

(* the same for the full acyclicity clause of [well_formed] *)
Theorem macro_fuel_enough tbl n a extra :
  In n (map fst tbl) ->
  expand_atom tbl (List.length tbl + extra) [n] a = expand_atom tbl (List.length tbl) [n] a.
Proof.
  intros Hn. apply expand_more_fuel.
  - constructor; [intros []|constructor].
  - intros x [X|[]]. subst x. exact Hn.
  - simpl. lia.
Qed.
Print Assumptions expand_fuel_enough.
