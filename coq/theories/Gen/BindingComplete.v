(* B1, converse direction: on grammars of the shape lox's desugaring produces,
   the sentence of the property implies that assign_actions succeeds; hence
   binding_verdict_exact.  Continues BindingVerdict.v. *)
From Coq Require Import List String Arith Bool Lia.
From Lox Require Import Gen.Binding Gen.BindingProofs Gen.BindingVerdict.
Import ListNotations.
Local Open Scope string_scope.
Local Open Scope nat_scope.
Local Open Scope list_scope.

Lemma filter_nil_intro : forall A (f : A -> bool) l,
  (forall x, In x l -> f x = false) -> filter f l = [].
Proof.
  induction l as [|a l IH]; simpl; intros H; auto.
  rewrite (H a) by auto. apply IH. auto.
Qed.

Lemma filter_length_lt : forall A (f g : A -> bool) l k,
  (forall j, g j = true -> f j = true) -> In k l -> f k = true -> g k = false ->
  List.length (filter g l) < List.length (filter f l).
Proof.
  intros A f g l k Himp. induction l as [|a l IH]; simpl; intros Hin Hf Hg; [contradiction|].
  assert (Hle : List.length (filter g l) <= List.length (filter f l)).
  { clear -Himp. induction l as [|b l IH]; simpl; auto.
    destruct (g b) eqn:Eg.
    - rewrite (Himp b Eg). simpl. lia.
    - destruct (f b); simpl; lia. }
  destruct Hin as [->|Hin].
  - rewrite Hf, Hg. simpl. lia.
  - specialize (IH Hin Hf Hg). destruct (g a) eqn:Eg.
    + rewrite (Himp a Eg). simpl. lia.
    + destruct (f a); simpl; lia.
Qed.

Section Complete.
Variable o : oracle.
Variables tok err : ty.
Variable rules : list brule.
Variable prods : list bprod.
Variable ms : list meth.

Notation acts := (actions ms).
Notation has_type := (has_type o tok err rules prods ms).
Notation typing := (typing o tok err rules prods ms).
Notation accepts := (accepts o tok err).
Notation rt_final := (rt_final o tok err rules prods ms).
Notation reduce2 := (reduce_type o tok err rules prods reduce_fuel).
Notation pass' := (pass o tok err rules prods).
Notation derive' := (derive o tok err rules prods).
Notation rt0 := (phase1_types o rules acts).
Notation source_rel := (source_rel rules prods).
Notation fty := (fty tok err).
Notation value := (value o).
Notation settled := (settled o tok err rules prods).
Notation binding_ok_with := (binding_ok_with o tok err rules prods ms).
Notation user_production := (user_production rules prods).
Notation method_of := (method_of rules ms).

Hypothesis Hwf : wf_input rules prods ms = true.
Hypothesis Hrefl : forall a, identical o a a = true.
Hypothesis Hsym : forall a b, identical o a b = true -> identical o b a = true.
Hypothesis Htrans : forall a b c,
  identical o a b = true -> identical o b c = true -> identical o a c = true.

(* The shape of a grammar after lox's desugaring (ast/parser_term.go):
   - an action method is never named after a generated rule (Go identifiers
     contain none of  ' * + ? ! @ );
   - every generated rule has its defining production: `c?` = c | e,
     `c+` = c+ c | c, `@list(c,s)` = @list s c | c, `c*` = c+ | e;
   - the element of a `+`/`@list` rule is a token or a user rule (the
     grammar of .lox files allows a cardinality only on a simple term). *)
Definition shape_ok : Prop :=
  (forall m rl, In m ms -> In rl rules -> rule_of m = Some (br_name rl) ->
                br_kind rl = NotGenerated) /\
  (forall k r, nth_error rules k = Some r ->
     br_kind r <> NotGenerated -> br_kind r <> SPrime ->
     exists pi x sl, source_rel k pi x sl /\
       (sl = true -> fst x = true \/ kind_of rules (snd x) = NotGenerated)).

Hypothesis Hshape : shape_ok.

(* ------------------------------------------------------------------ *)
(* induction on has_type that reaches the type of the element *)

Lemma has_type_ind' : forall (P : nat -> ty -> Prop),
  (forall i r f others,
     nth_error rules i = Some r -> group acts (br_name r) = f :: others -> P i (ret f)) ->
  (forall i r p0 rest p x xs t,
     nth_error rules i = Some r -> br_kind r = ZeroOrOne ->
     br_prods r = p0 :: rest -> nth_error prods p0 = Some p -> bp_terms p = x :: xs ->
     ((fst x = true /\ t = terminal_ty tok err (snd x)) \/ (fst x = false /\ has_type (snd x) t /\ P (snd x) t)) ->
     P i t) ->
  (forall i r q p1 rest p x xs t,
     nth_error rules i = Some r -> is_plus (br_kind r) ->
     br_prods r = q :: p1 :: rest -> nth_error prods p1 = Some p -> bp_terms p = x :: xs ->
     ((fst x = true /\ t = terminal_ty tok err (snd x)) \/ (fst x = false /\ has_type (snd x) t /\ P (snd x) t)) ->
     P i (slice_of o t)) ->
  (forall i r p0 rest p c xs rc q p1 rest' pc x xs' t,
     nth_error rules i = Some r -> is_star (br_kind r) ->
     br_prods r = p0 :: rest -> nth_error prods p0 = Some p -> bp_terms p = (false, c) :: xs ->
     nth_error rules c = Some rc -> is_plus (br_kind rc) ->
     br_prods rc = q :: p1 :: rest' -> nth_error prods p1 = Some pc -> bp_terms pc = x :: xs' ->
     ((fst x = true /\ t = terminal_ty tok err (snd x)) \/ (fst x = false /\ has_type (snd x) t /\ P (snd x) t)) ->
     P i (slice_of o t)) ->
  forall i t, has_type i t -> P i t.
Proof.
  intros P Hm Ho Hp Hs. fix IH 3. intros i t H. destruct H.
  - eapply Hm; eauto.
  - eapply Ho; eauto. destruct H4 as [H4|[H4 H5]]; [left; exact H4|].
    right. split; [exact H4|]. split; [exact H5|]. apply IH. exact H5.
  - eapply Hp; eauto. destruct H4 as [H4|[H4 H5]]; [left; exact H4|].
    right. split; [exact H4|]. split; [exact H5|]. apply IH. exact H5.
  - eapply Hs; eauto. destruct H9 as [H9|[H9 H10]]; [left; exact H9|].
    right. split; [exact H9|]. split; [exact H10|]. apply IH. exact H10.
Qed.


(* ------------------------------------------------------------------ *)
(* the defining production of a generated rule is unique *)

Lemma plus_not_opt : forall k, is_plus k -> k <> ZeroOrOne.
Proof. intros k [H|[H|H]]; rewrite H; discriminate. Qed.
Lemma star_not_opt : forall k, is_star k -> k <> ZeroOrOne.
Proof. intros k [H|H]; rewrite H; discriminate. Qed.
Lemma plus_not_star : forall k, is_plus k -> is_star k -> False.
Proof. intros k [H|[H|H]] [H'|H']; rewrite H in H'; discriminate. Qed.

Lemma source_functional : forall k pi x sl pi' x' sl',
  source_rel k pi x sl -> source_rel k pi' x' sl' -> pi = pi' /\ x = x' /\ sl = sl'.
Proof.
  intros k pi x sl pi' x' sl' [r [Hn H]] [r' [Hn' H']].
  rewrite Hn in Hn'. inversion Hn'; subst r'. clear Hn'.
  destruct H as [H|[H|H]]; destruct H' as [H'|[H'|H']].
  - destruct H as [K [-> [rest [p [xs [Hp [Hnp Hx]]]]]]].
    destruct H' as [K' [-> [rest' [p' [xs' [Hp' [Hnp' Hx']]]]]]].
    rewrite Hp in Hp'. inversion Hp'; subst. rewrite Hnp in Hnp'. inversion Hnp'; subst.
    rewrite Hx in Hx'. inversion Hx'; subst. auto.
  - destruct H as [K _]. destruct H' as [K' _]. exfalso. eapply plus_not_opt; eauto.
  - destruct H as [K _]. destruct H' as [K' _]. exfalso. eapply star_not_opt; eauto.
  - destruct H as [K _]. destruct H' as [K' _]. exfalso. eapply plus_not_opt; eauto.
  - destruct H as [K [-> [q [rest [p [xs [Hp [Hnp Hx]]]]]]]].
    destruct H' as [K' [-> [q' [rest' [p' [xs' [Hp' [Hnp' Hx']]]]]]]].
    rewrite Hp in Hp'. inversion Hp'; subst. rewrite Hnp in Hnp'. inversion Hnp'; subst.
    rewrite Hx in Hx'. inversion Hx'; subst. auto.
  - destruct H as [K _]. destruct H' as [K' _]. exfalso. eapply plus_not_star; eauto.
  - destruct H as [K _]. destruct H' as [K' _]. exfalso. eapply star_not_opt; eauto.
  - destruct H as [K _]. destruct H' as [K' _]. exfalso. eapply plus_not_star; eauto.
  - destruct H as [K [-> H]]. destruct H' as [K' [-> H']].
    destruct H as [rest [p [c [xs [rc [q [p1 [rest1 [pc [xs1 H]]]]]]]]]].
    destruct H as [Hp [Hnp [Hx [Hnc [Kc [Hpc [Hnpc Hxc]]]]]]].
    destruct H' as [rest' [p' [c' [xs' [rc' [q' [p1' [rest1' [pc' [xs1' H']]]]]]]]]].
    destruct H' as [Hp' [Hnp' [Hx' [Hnc' [Kc' [Hpc' [Hnpc' Hxc']]]]]]].
    rewrite Hp in Hp'. inversion Hp'; subst. rewrite Hnp in Hnp'. inversion Hnp'; subst.
    rewrite Hx in Hx'. inversion Hx'; subst. rewrite Hnc in Hnc'. inversion Hnc'; subst.
    rewrite Hpc in Hpc'. inversion Hpc'; subst. rewrite Hnpc in Hnpc'. inversion Hnpc'; subst.
    rewrite Hxc in Hxc'. inversion Hxc'; subst. auto.
Qed.

(* any other production of the rule contributes nothing *)
Lemma reduce_other : forall rt k pi0 x sl pi,
  source_rel k pi0 x sl -> pi <> pi0 -> reduce2 rt k pi = RT INil.
Proof.
  intros rt k pi0 x sl pi [r [Hn H]] Hne. apply Nat.eqb_neq in Hne.
  unfold reduce_fuel. destruct H as [H|[H|H]].
  - destruct H as [K [_ [rest [p [xs [Hp _]]]]]].
    simpl. rewrite Hn, K, Hp, Hne. reflexivity.
  - destruct H as [K [_ [q [rest [p [xs [Hp _]]]]]]].
    simpl. rewrite Hn. destruct K as [K|[K|K]]; rewrite K, Hp, Hne; reflexivity.
  - destruct H as [K [_ [rest [p [c [xs [rc [q [p1 [rest1 [pc [xs1 [Hp _]]]]]]]]]]]]].
    change 2 with (S 1). remember 1 as f1. simpl. rewrite Hn.
    destruct K as [K|K]; rewrite K, Hp, Hne; reflexivity.
Qed.

Lemma reduce_no_panic : forall rt k pi r,
  nth_error rules k = Some r -> exists t, reduce2 rt k pi = RT t.
Proof.
  intros rt k pi r Hn. destruct Hshape as [_ Hsh].
  destruct (br_kind r) eqn:K.
  - exists INil. unfold reduce_fuel. simpl. rewrite Hn, K. reflexivity.
  - exists INil. unfold reduce_fuel. simpl. rewrite Hn, K. reflexivity.
  - destruct (Hsh k r Hn) as [pi0 [x [sl [Hsrc _]]]]; try (rewrite K; discriminate).
    destruct (Nat.eq_dec pi pi0) as [->|Hne].
    + eexists. apply reduce_type_of_source; eauto.
    + exists INil. eapply reduce_other; eauto.
  - destruct (Hsh k r Hn) as [pi0 [x [sl [Hsrc _]]]]; try (rewrite K; discriminate).
    destruct (Nat.eq_dec pi pi0) as [->|Hne].
    + eexists. apply reduce_type_of_source; eauto.
    + exists INil. eapply reduce_other; eauto.
  - destruct (Hsh k r Hn) as [pi0 [x [sl [Hsrc _]]]]; try (rewrite K; discriminate).
    destruct (Nat.eq_dec pi pi0) as [->|Hne].
    + eexists. apply reduce_type_of_source; eauto.
    + exists INil. eapply reduce_other; eauto.
  - destruct (Hsh k r Hn) as [pi0 [x [sl [Hsrc _]]]]; try (rewrite K; discriminate).
    destruct (Nat.eq_dec pi pi0) as [->|Hne].
    + eexists. apply reduce_type_of_source; eauto.
    + exists INil. eapply reduce_other; eauto.
  - destruct (Hsh k r Hn) as [pi0 [x [sl [Hsrc _]]]]; try (rewrite K; discriminate).
    destruct (Nat.eq_dec pi pi0) as [->|Hne].
    + eexists. apply reduce_type_of_source; eauto.
    + exists INil. eapply reduce_other; eauto.
  - destruct (Hsh k r Hn) as [pi0 [x [sl [Hsrc _]]]]; try (rewrite K; discriminate).
    destruct (Nat.eq_dec pi pi0) as [->|Hne].
    + eexists. apply reduce_type_of_source; eauto.
    + exists INil. eapply reduce_other; eauto.
Qed.

Lemma ity_identical_refl : forall t, ity_identical o t t = true.
Proof. induction t; simpl; auto. Qed.


(* ------------------------------------------------------------------ *)
(* the fixed point neither panics nor runs out of fuel *)

Definition inv (rt : rtypes) : Prop :=
  (forall k, kind_of rules k = NotGenerated -> rt_get rt k = rt_get rt0 k) /\
  (forall k, rt_get rt k <> INil -> kind_of rules k <> NotGenerated ->
     exists pi x sl, source_rel k pi x sl /\ rt_get rt k = value sl (fty rt x)).

Lemma rt0_user : forall k, rt_get rt0 k <> INil -> kind_of rules k = NotGenerated.
Proof.
  intros k H. destruct (rt_get rt0 k) eqn:E; [contradiction| |].
  - apply rt_get_in in E; [|discriminate]. apply phase1_types_in in E.
    destruct E as [r [f [others [Hg [Hf _]]]]].
    apply find_rule_some in Hf. destruct Hf as [rl [Hn Hname]].
    assert (Hfg : In f (group acts r)) by (rewrite Hg; simpl; auto).
    apply in_group_iff in Hfg. destruct Hfg as [Hfm Hfr].
    destruct Hshape as [Hs1 _]. unfold kind_of. rewrite Hn.
    apply (Hs1 f rl); auto. eapply nth_error_In; eauto. rewrite Hname. exact Hfr.
  - apply rt_get_in in E; [|discriminate]. apply phase1_types_in in E.
    destruct E as [? [? [? [_ [_ E]]]]]. discriminate.
Qed.

Lemma inv_rt0 : inv rt0.
Proof.
  split; auto. intros k Hk Hg. exfalso. apply Hg. apply rt0_user. exact Hk.
Qed.

Lemma source_kind : forall k pi x sl,
  source_rel k pi x sl ->
  exists r, nth_error rules k = Some r /\ br_kind r <> NotGenerated /\ br_kind r <> SPrime.
Proof.
  intros k pi x sl [r [Hn H]]. exists r. split; auto.
  destruct H as [[K _]|[[K _]|[K _]]].
  - rewrite K. split; discriminate.
  - destruct K as [K|[K|K]]; rewrite K; split; discriminate.
  - destruct K as [K|K]; rewrite K; split; discriminate.
Qed.

Lemma source_elem_user : forall k pi x,
  source_rel k pi x true -> fst x = true \/ kind_of rules (snd x) = NotGenerated.
Proof.
  intros k pi x Hsrc. destruct (source_kind _ _ _ _ Hsrc) as [r [Hn [K1 K2]]].
  destruct Hshape as [_ Hsh]. destruct (Hsh k r Hn K1 K2) as [pi0 [x0 [sl0 [Hsrc0 Hel]]]].
  destruct (source_functional _ _ _ _ _ _ _ Hsrc Hsrc0) as [_ [-> <-]]. auto.
Qed.

Lemma fty_stable : forall rt k t k' pi' x' sl',
  source_rel k' pi' x' sl' -> value sl' (fty rt x') <> INil ->
  rt_get rt k = INil -> kind_of rules k <> NotGenerated ->
  fty ((k, t) :: rt) x' = fty rt x'.
Proof.
  intros rt k t k' pi' [[|] c] sl' Hsrc Hv Hnil Hk; unfold BindingVerdict.fty; simpl; auto.
  destruct (k =? c) eqn:E; auto. apply Nat.eqb_eq in E. subst c. exfalso.
  destruct sl'.
  - destruct (source_elem_user _ _ _ Hsrc) as [H|H]; simpl in H; [discriminate|contradiction].
  - apply Hv. unfold BindingVerdict.value, BindingVerdict.fty. simpl. exact Hnil.
Qed.

Lemma inv_step : forall rt k t pi,
  inv rt -> rt_get rt k = INil -> t <> INil -> reduce2 rt k pi = RT t ->
  inv ((k, t) :: rt).
Proof.
  intros rt k t pi [I1 I2] Hnil Ht Hr.
  destruct (reduce_type_source o tok err rules prods ms Hwf rt k pi t Hr Ht) as [x [sl [Hsrc Hval]]].
  destruct (source_facts rules prods ms Hwf _ _ _ _ Hsrc) as [_ [_ Hk]].
  split.
  - intros k' Hk'. simpl. destruct (k =? k') eqn:E; [|apply I1; auto].
    apply Nat.eqb_eq in E. subst. contradiction.
  - intros k' Hnn Hk'. simpl in Hnn. simpl rt_get at 1.
    destruct (k =? k') eqn:E.
    + apply Nat.eqb_eq in E. subst k'. exists pi, x, sl. split; auto.
      rewrite (fty_stable rt k t k pi x sl); auto. rewrite <- Hval. exact Ht.
    + destruct (I2 k' Hnn Hk') as [pi' [x' [sl' [Hsrc' Hv']]]].
      exists pi', x', sl'. split; auto.
      rewrite (fty_stable rt k t k' pi' x' sl'); auto. rewrite <- Hv'. exact Hnn.
Qed.

(* the number of rules still without a type *)
Definition untyped (rt : rtypes) : nat :=
  List.length (filter (fun j => ity_is_nil (rt_get rt j)) (seq 0 (List.length rules))).

Lemma untyped_add : forall rt k t,
  rt_get rt k = INil -> k < List.length rules -> t <> INil ->
  untyped ((k, t) :: rt) < untyped rt.
Proof.
  intros rt k t Hnil Hlt Ht. unfold untyped.
  apply (filter_length_lt _ _ _ _ k).
  - intros j. simpl. destruct (k =? j) eqn:E; auto.
    intros H. apply ity_is_nil_true in H. contradiction.
  - apply in_seq. lia.
  - rewrite Hnil. reflexivity.
  - simpl. rewrite Nat.eqb_refl. destruct t; auto. contradiction.
Qed.

Lemma pass_step_nil : forall ip rest rt ch,
  reduce2 rt (bp_rule (snd ip)) (fst ip) = RT INil ->
  pass' (ip :: rest) rt ch = pass' rest rt ch.
Proof. intros ip rest rt ch H. rewrite pass_cons, H. reflexivity. Qed.

Lemma pass_step_add : forall ip rest rt ch t,
  reduce2 rt (bp_rule (snd ip)) (fst ip) = RT t -> t <> INil ->
  rt_get rt (bp_rule (snd ip)) = INil ->
  pass' (ip :: rest) rt ch = pass' rest ((bp_rule (snd ip), t) :: rt) true.
Proof.
  intros ip rest rt ch t H Ht Hnil. rewrite pass_cons, H, Hnil.
  destruct t; [contradiction| |]; reflexivity.
Qed.

Lemma pass_step_same : forall ip rest rt ch t,
  reduce2 rt (bp_rule (snd ip)) (fst ip) = RT t -> t <> INil ->
  rt_get rt (bp_rule (snd ip)) <> INil ->
  ity_identical o (rt_get rt (bp_rule (snd ip))) t = true ->
  pass' (ip :: rest) rt ch = pass' rest rt ch.
Proof.
  intros ip rest rt ch t H Ht Hnn Hid. rewrite pass_cons, H.
  destruct t; [contradiction| |];
    (destruct (rt_get rt (bp_rule (snd ip))); [contradiction| |]; rewrite Hid; reflexivity).
Qed.

Lemma pass_ok : forall ps rt ch,
  inv rt -> (forall ip, In ip ps -> In ip (indexed prods)) ->
  exists rt' ch', pass' ps rt ch = PDone rt' ch' /\ inv rt' /\
    untyped rt' <= untyped rt /\ (ch = false -> ch' = true -> untyped rt' < untyped rt).
Proof.
  induction ps as [|ip rest IH]; intros rt ch Hinv Hps.
  - exists rt, ch. simpl. split; [reflexivity|]. split; [exact Hinv|]. split; [lia|].
    intros -> H. discriminate.
  - assert (Hrest : forall ip', In ip' rest -> In ip' (indexed prods))
      by (intros; apply Hps; simpl; auto).
    assert (Hip : In ip (indexed prods)) by (apply Hps; simpl; auto).
    destruct ip as [pi p]. apply in_indexed in Hip. pose proof Hip as Hp.
    apply nth_error_In in Hp.
    destruct (wf_prod_in _ _ _ p Hwf Hp) as [Hlt _].
    destruct (nth_error rules (bp_rule p)) as [r|] eqn:Hn.
    2:{ apply nth_error_None in Hn. lia. }
    destruct (reduce_no_panic rt (bp_rule p) pi r Hn) as [t Hr].
    destruct t as [|t0|e] eqn:Et.
    + rewrite pass_step_nil by exact Hr. apply IH; auto.
    + rewrite <- Et in Hr.
      assert (Ht : t <> INil) by (rewrite Et; discriminate).
      destruct (rt_get rt (bp_rule p)) eqn:Eg.
      * rewrite (pass_step_add (pi, p) rest rt ch t Hr Ht Eg). simpl.
        destruct (IH ((bp_rule p, t) :: rt) true) as [rt' [ch' [Hpass [Hinv' [Hle _]]]]]; auto.
        { eapply inv_step; eauto. }
        exists rt', ch'. split; auto. split; auto.
        pose proof (untyped_add rt (bp_rule p) t Eg Hlt Ht). split; [lia|]. intros; lia.
      * assert (Hnn : rt_get rt (bp_rule p) <> INil) by (rewrite Eg; discriminate).
        assert (Hsame : rt_get rt (bp_rule p) = t).
        { destruct (reduce_type_source o tok err rules prods ms Hwf rt _ _ _ Hr Ht)
            as [x [sl [Hsrc Hval]]].
          destruct (source_facts rules prods ms Hwf _ _ _ _ Hsrc) as [_ [_ Hk]].
          destruct Hinv as [_ I2]. destruct (I2 _ Hnn Hk) as [pi' [x' [sl' [Hsrc' Hv']]]].
          destruct (source_functional _ _ _ _ _ _ _ Hsrc Hsrc') as [_ [<- <-]]. congruence. }
        rewrite (pass_step_same (pi, p) rest rt ch t Hr Ht); auto.
        simpl. rewrite Hsame. apply ity_identical_refl.
      * assert (Hnn : rt_get rt (bp_rule p) <> INil) by (rewrite Eg; discriminate).
        assert (Hsame : rt_get rt (bp_rule p) = t).
        { destruct (reduce_type_source o tok err rules prods ms Hwf rt _ _ _ Hr Ht)
            as [x [sl [Hsrc Hval]]].
          destruct (source_facts rules prods ms Hwf _ _ _ _ Hsrc) as [_ [_ Hk]].
          destruct Hinv as [_ I2]. destruct (I2 _ Hnn Hk) as [pi' [x' [sl' [Hsrc' Hv']]]].
          destruct (source_functional _ _ _ _ _ _ _ Hsrc Hsrc') as [_ [<- <-]]. congruence. }
        rewrite (pass_step_same (pi, p) rest rt ch t Hr Ht); auto.
        simpl. rewrite Hsame. apply ity_identical_refl.
    + rewrite <- Et in Hr.
      assert (Ht : t <> INil) by (rewrite Et; discriminate).
      destruct (rt_get rt (bp_rule p)) eqn:Eg.
      * rewrite (pass_step_add (pi, p) rest rt ch t Hr Ht Eg). simpl.
        destruct (IH ((bp_rule p, t) :: rt) true) as [rt' [ch' [Hpass [Hinv' [Hle _]]]]]; auto.
        { eapply inv_step; eauto. }
        exists rt', ch'. split; auto. split; auto.
        pose proof (untyped_add rt (bp_rule p) t Eg Hlt Ht). split; [lia|]. intros; lia.
      * assert (Hnn : rt_get rt (bp_rule p) <> INil) by (rewrite Eg; discriminate).
        assert (Hsame : rt_get rt (bp_rule p) = t).
        { destruct (reduce_type_source o tok err rules prods ms Hwf rt _ _ _ Hr Ht)
            as [x [sl [Hsrc Hval]]].
          destruct (source_facts rules prods ms Hwf _ _ _ _ Hsrc) as [_ [_ Hk]].
          destruct Hinv as [_ I2]. destruct (I2 _ Hnn Hk) as [pi' [x' [sl' [Hsrc' Hv']]]].
          destruct (source_functional _ _ _ _ _ _ _ Hsrc Hsrc') as [_ [<- <-]]. congruence. }
        rewrite (pass_step_same (pi, p) rest rt ch t Hr Ht); auto.
        simpl. rewrite Hsame. apply ity_identical_refl.
      * assert (Hnn : rt_get rt (bp_rule p) <> INil) by (rewrite Eg; discriminate).
        assert (Hsame : rt_get rt (bp_rule p) = t).
        { destruct (reduce_type_source o tok err rules prods ms Hwf rt _ _ _ Hr Ht)
            as [x [sl [Hsrc Hval]]].
          destruct (source_facts rules prods ms Hwf _ _ _ _ Hsrc) as [_ [_ Hk]].
          destruct Hinv as [_ I2]. destruct (I2 _ Hnn Hk) as [pi' [x' [sl' [Hsrc' Hv']]]].
          destruct (source_functional _ _ _ _ _ _ _ Hsrc Hsrc') as [_ [<- <-]]. congruence. }
        rewrite (pass_step_same (pi, p) rest rt ch t Hr Ht); auto.
        simpl. rewrite Hsame. apply ity_identical_refl.
Qed.

Lemma derive_ok : forall fuel rt,
  inv rt -> untyped rt < fuel -> exists rt', derive' fuel rt = DvOk rt' /\ inv rt'.
Proof.
  induction fuel as [|f IH]; intros rt Hinv Hlt; [lia|]. simpl.
  destruct (pass_ok (indexed prods) rt false Hinv (fun ip H => H))
    as [rt1 [ch1 [Hpass [Hinv1 [Hle Hdec]]]]].
  rewrite Hpass. destruct ch1.
  - apply IH; auto. specialize (Hdec eq_refl eq_refl). lia.
  - exists rt1. auto.
Qed.

Lemma untyped_le : forall rt, untyped rt <= List.length rules.
Proof.
  intros rt. unfold untyped.
  assert (H : forall A (f : A -> bool) l, List.length (filter f l) <= List.length l).
  { induction l as [|a l IH]; simpl; auto. destruct (f a); simpl; lia. }
  eapply Nat.le_trans; [apply H|]. rewrite seq_length. lia.
Qed.

Lemma derive_succeeds : exists rt,
  derive' (derive_fuel rules) rt0 = DvOk rt /\ inv rt.
Proof.
  apply derive_ok; [apply inv_rt0|]. unfold derive_fuel.
  pose proof (untyped_le rt0). lia.
Qed.


(* ------------------------------------------------------------------ *)
(* the type of a rule is unique *)

Lemma meth_rule_user : forall i r f others,
  nth_error rules i = Some r -> group acts (br_name r) = f :: others ->
  br_kind r = NotGenerated.
Proof.
  intros i r f others Hn Hg.
  assert (Hfg : In f (group acts (br_name r))) by (rewrite Hg; simpl; auto).
  apply in_group_iff in Hfg. destruct Hfg as [Hfm Hfr].
  destruct Hshape as [Hs1 _]. apply (Hs1 f r); auto. eapply nth_error_In; eauto.
Qed.

Ltac uni :=
  repeat match goal with
  | H1 : ?a = Some ?x, H2 : ?a = Some ?y |- _ =>
    rewrite H1 in H2; inversion H2; subst; clear H2
  | H1 : ?a = ?x :: ?l, H2 : ?a = ?y :: ?l' |- _ =>
    rewrite H1 in H2; inversion H2; subst; clear H2
  end.

Ltac kclash :=
  try congruence;
  try (exfalso; match goal with
       | H : is_plus ?k, H' : ?k = _ |- _ => destruct H as [H|[H|H]]; congruence
       | H : is_star ?k, H' : ?k = _ |- _ => destruct H as [H|H]; congruence
       | H : is_plus ?k, H' : is_star ?k |- _ => exact (plus_not_star _ H H')
       end).

Lemma elem_unique : forall x t t',
  ((fst x = true /\ t = terminal_ty tok err (snd x)) \/
   (fst x = false /\ has_type (snd x) t /\ (forall t', has_type (snd x) t' -> t = t'))) ->
  ((fst x = true /\ t' = terminal_ty tok err (snd x)) \/ (fst x = false /\ has_type (snd x) t')) ->
  t = t'.
Proof.
  intros x t t' [[H1 H2]|[H1 [_ H2]]] [[H3 H4]|[H3 H4]]; try congruence. auto.
Qed.

Lemma has_type_functional : forall i t, has_type i t -> forall t', has_type i t' -> t = t'.
Proof.
  apply (has_type_ind' (fun i t => forall t', has_type i t' -> t = t')).
  - intros i r f others Hn Hg t' H'.
    pose proof (meth_rule_user _ _ _ _ Hn Hg) as K.
    inversion H'; subst; uni; kclash; reflexivity.
  - intros i r p0 rest p x xs t Hn K Hp Hnp Hx Hel t' H'.
    inversion H'; subst; uni; kclash.
    + match goal with
      | H1 : nth_error rules i = Some ?r', H2 : group acts (br_name ?r') = _ |- _ =>
        pose proof (meth_rule_user _ _ _ _ H1 H2)
      end. congruence.
    + eapply elem_unique; eauto.
  - intros i r q p1 rest p x xs t Hn K Hp Hnp Hx Hel t' H'.
    inversion H'; subst; uni; kclash.
    + match goal with
      | H1 : nth_error rules i = Some ?r', H2 : group acts (br_name ?r') = _ |- _ =>
        pose proof (meth_rule_user _ _ _ _ H1 H2)
      end. kclash.
    + f_equal. eapply elem_unique; eauto.
  - intros i r p0 rest p c xs rc q p1 rest' pc x xs' t Hn K Hp Hnp Hx Hnc Kc Hpc Hnpc Hxc Hel t' H'.
    inversion H'; subst; uni; kclash.
    + match goal with
      | H1 : nth_error rules i = Some ?r', H2 : group acts (br_name ?r') = _ |- _ =>
        pose proof (meth_rule_user _ _ _ _ H1 H2)
      end. kclash.
    + f_equal. eapply elem_unique; eauto.
Qed.


(* ------------------------------------------------------------------ *)
(* every rule that has a type in the specification gets one in the table *)

Lemma derive_complete : forall fuel fin,
  derive' fuel rt0 = DvOk fin -> phase1_errs o rules acts = [] ->
  forall i t, has_type i t -> rt_get fin i <> INil.
Proof.
  intros fuel fin Hd H1.
  assert (Hset : forall k pi x sl, source_rel k pi x sl ->
            value sl (fty fin x) <> INil -> rt_get fin k <> INil).
  { intros k pi x sl Hsrc Hv.
    destruct (source_facts rules prods ms Hwf _ _ _ _ Hsrc) as [[p [Hnp Hrule]] _].
    assert (Hin : In (pi, p) (indexed prods)) by (apply in_indexed; auto).
    destruct (derive_fixed o tok err rules prods _ _ _ Hd _ Hin) as [t' [Hr' Hs]].
    cbn [fst snd] in Hr', Hs. rewrite Hrule in Hr', Hs.
    rewrite (reduce_type_of_source o tok err rules prods fin k pi x sl Hsrc) in Hr'.
    inversion Hr'; subst t'. destruct Hs as [Hs|[Hs _]]; [contradiction|exact Hs]. }
  apply (has_type_ind' (fun i t => rt_get fin i <> INil)).
  - intros i r f others Hn Hg.
    assert (Hfg : In f (group acts (br_name r))) by (rewrite Hg; simpl; auto).
    apply in_group_iff in Hfg. destruct Hfg as [Hfm Hfr].
    pose proof (phase1_ok_rule_typed o rules prods ms f r i Hwf H1 Hfm Hn Hfr) as Hnn.
    rewrite (derive_mono o tok err rules prods _ _ _ _ Hd Hnn). exact Hnn.
  - intros i r p0 rest p x xs t Hn K Hp Hnp Hx Hel.
    apply (Hset i p0 x false).
    + exists r. split; auto. left. split; auto. split; auto. exists rest, p, xs. auto.
    + unfold BindingVerdict.value, BindingVerdict.fty.
      destruct Hel as [[Hf _]|[Hf [_ Hnn]]]; rewrite Hf; [discriminate|exact Hnn].
  - intros i r q p1 rest p x xs t Hn K Hp Hnp Hx Hel.
    apply (Hset i p1 x true).
    + exists r. split; auto. right; left. split; auto. split; auto. exists q, rest, p, xs. auto.
    + apply islice_nonnil.
  - intros i r p0 rest p c xs rc q p1 rest' pc x xs' t Hn K Hp Hnp Hx Hnc Kc Hpc Hnpc Hxc Hel.
    apply (Hset i p0 x true).
    + exists r. split; auto. right; right. split; auto. split; auto.
      exists rest, p, c, xs, rc, q, p1, rest', pc, xs'. repeat split; auto.
    + apply islice_nonnil.
Qed.

Lemma rt0_value : forall k rl f others,
  phase1_errs o rules acts = [] -> nth_error rules k = Some rl ->
  group acts (br_name rl) = f :: others -> rt_get rt0 k = IT (ret f).
Proof.
  intros k rl f others H1 Hn Hg.
  assert (Hfg : In f (group acts (br_name rl))) by (rewrite Hg; simpl; auto).
  apply in_group_iff in Hfg. destruct Hfg as [Hfm Hfr].
  pose proof (phase1_ok_rule_typed o rules prods ms f rl k Hwf H1 Hfm Hn Hfr) as Hnn.
  pose proof (rt_get_in rt0 k _ eq_refl Hnn) as Hin.
  apply phase1_types_in in Hin. destruct Hin as [r' [f' [others' [Hg' [Hf' Hx]]]]].
  apply find_rule_some in Hf'. destruct Hf' as [rl' [Hn' Hname']].
  rewrite Hn in Hn'. inversion Hn'; subst rl'. subst r'.
  rewrite Hg in Hg'. inversion Hg'; subst. exact Hx.
Qed.

Lemma Forall2_impl_in : forall A B (R R' : A -> B -> Prop) l l',
  Forall2 R l l' -> (forall a b, In b l' -> R a b -> R' a b) -> Forall2 R' l l'.
Proof.
  intros A B R R' l l' H. induction H; intros Himp; constructor.
  - apply Himp; simpl; auto.
  - apply IHForall2. intros a b Hb. apply Himp. simpl. auto.
Qed.

Lemma existsb_false_intro : forall A (f : A -> bool) l,
  (forall x, In x l -> f x = false) -> existsb f l = false.
Proof.
  intros A f l H. destruct (existsb f l) eqn:E; auto.
  apply existsb_exists in E. destruct E as [x [Hx Hf]]. rewrite (H x Hx) in Hf. discriminate.
Qed.

(* the converse of binding_sound *)
Theorem binding_complete : forall rtl,
  binding_ok_with rtl -> exists b rtl', assign_actions o tok err rules prods ms = BOk b rtl'.
Proof.
  intros rtl [C1 [C2 [C3 [Cty [C4 [C5 C6]]]]]].
  (* getActionMethods *)
  assert (H0 : phase0_errs ms = []).
  { unfold phase0_errs. rewrite filter_nil_intro; auto.
    intros m Hm. apply in_actions in Hm. destruct Hm as [Hms Hact].
    unfold bad_result_count. rewrite (C1 m Hms Hact). reflexivity. }
  (* return types and rule names *)
  assert (H1 : phase1_errs o rules acts = []).
  { unfold phase1_errs. apply flat_map_nil_intro. intros r Hr.
    apply in_group_names in Hr. destruct Hr as [m [Hms Hmr]].
    assert (Hg : In m (group acts r)) by (apply in_group_iff; auto).
    unfold phase1_group. destruct (group acts r) as [|f others] eqn:Eg; [contradiction|].
    assert (Hfg : In f (group acts r)) by (rewrite Eg; simpl; auto).
    apply in_group_iff in Hfg. destruct Hfg as [Hfm Hfr].
    rewrite filter_nil_intro.
    2:{ intros m' Hm'. assert (Hg' : In m' (group acts r)) by (rewrite Eg; simpl; auto).
        apply in_group_iff in Hg'. destruct Hg' as [Hms' Hr'].
        rewrite (C3 m' f r Hms' Hfm Hr' Hfr). reflexivity. }
    destruct (find_rule rules r) as [j|] eqn:Ef; simpl; auto.
    exfalso. destruct (C2 f r Hfm Hfr) as [i [rl [Hn Hname]]].
    apply (find_rule_from_none _ _ _ Ef rl); auto. eapply nth_error_In; eauto. }
  (* derived types *)
  destruct derive_succeeds as [rt [Hd [I1 I2]]].
  assert (Hmiss : missing_rules rules rt = []).
  { unfold missing_rules. apply flat_map_nil_intro. intros [i rl] Hin. simpl.
    apply in_indexed in Hin.
    destruct (is_sprime (br_kind rl)) eqn:Es; auto.
    destruct (C4 i rl Hin) as [t Ht].
    { intros K. rewrite K in Es. discriminate. }
    pose proof (derive_complete _ _ Hd H1 i t (Cty i t Ht)) as Hnn.
    destruct (rt_get rt i); auto. contradiction. }
  assert (Hfin : rt_final rt) by (unfold BindingProofs.rt_final; auto).
  pose proof (rule_types_typing o tok err rules prods ms rt
                (rt_final_sound o tok err rules prods ms rt Hwf Hfin)) as Hty'.
  (* both type assignments agree on the terms of productions *)
  assert (Hterm : forall t s, wf_term rules t = true ->
            (term_has_ty tok err rtl t s <-> term_has_ty tok err (rule_types_of rules rt) t s)).
  { intros [[|] c] s Hw; unfold term_has_ty; simpl; [tauto|].
    destruct (wf_term_rule rules c Hw) as [rc [Hnc Hkc]]. split; intros Hin.
    - destruct (final_typed o tok err rules prods ms Hwf rt c rc Hfin Hnc Hkc) as [s' Hs'].
      assert (Hin' : In (c, s') (rule_types_of rules rt)).
      { apply rule_types_in. split; auto. apply nth_error_Some. congruence. }
      rewrite (has_type_functional c s (Cty c s Hin) s' (Hty' c s' Hin')). exact Hin'.
    - destruct (C4 c rc Hnc Hkc) as [s' Hs'].
      rewrite (has_type_functional c s (Hty' c s Hin) s' (Cty c s' Hs')). exact Hs'. }
  assert (Hacc : forall m p, In p prods ->
            (accepts rtl m p <-> accepts (rule_types_of rules rt) m p)).
  { intros m p Hp. destruct (wf_prod_in _ _ _ p Hwf Hp) as [_ Hall].
    rewrite forallb_forall in Hall. unfold BindingProofs.accepts.
    split; intros H; eapply Forall2_impl_in; try exact H;
      intros q t Ht [s [Hs Ha]]; exists s; split; auto; apply (Hterm t s (Hall t Ht)); auto. }
  (* matching *)
  assert (Hsingle : forall pi p, user_production pi p ->
            exists m, matches o tok err rules rt acts p = [m] /\ method_of p m /\ accepts rtl m p).
  { intros pi p Hup. pose proof Hup as [Hnp Hk].
    assert (Hp : In p prods) by (eapply nth_error_In; eauto).
    destruct (C5 pi p Hup) as [m [Hm [Ha Huniq]]].
    destruct (prod_clause_exact o tok err rules prods ms Hwf rt pi p Hup) as [_ [_ Hb]].
    destruct (proj2 Hb) as [mid Hmid].
    { exists m. split; auto. split; [apply Hacc; auto|].
      intros m' Hm' Ha'. apply Huniq; auto. apply Hacc; auto. }
    apply in_binding in Hmid. destruct Hmid as [p' [m' [Hup' [Hm' _]]]].
    apply in_user_prods in Hup'. destruct Hup' as [Hnp' _].
    rewrite Hnp in Hnp'. inversion Hnp'; subst p'.
    assert (Hin : In m' (matches o tok err rules rt acts p)) by (rewrite Hm'; simpl; auto).
    apply in_matches in Hin. destruct Hin as [Hms' [Hr' Hmatch]].
    exists m'. split; auto. split; [split; auto|].
    apply Hacc; auto. apply (is_match_iff o tok err rules prods ms); auto. }
  assert (Herr : phase4_errs o tok err rules prods rt acts = []).
  { unfold phase4_errs. apply flat_map_nil_intro. intros [pi p] Hin. simpl.
    apply in_user_prods in Hin. destruct (Hsingle pi p Hin) as [m [Hm _]]. rewrite Hm. auto. }
  assert (Hpan : phase4_panics o tok err rules prods rt acts = false).
  { unfold phase4_panics. apply existsb_false_intro. intros [pi p] Hin. simpl.
    apply in_user_prods in Hin. pose proof Hin as [Hnp Hk].
    destruct (Hsingle pi p Hin) as [m [Hm [[Hms Hr] _]]]. rewrite Hm.
    apply negb_false_iff.
    unfold kind_of in Hk. unfold name_of in Hr.
    destruct (nth_error rules (bp_rule p)) as [rl|] eqn:Hn.
    2:{ apply nth_error_In in Hnp. destruct (wf_prod_in _ _ _ p Hwf Hnp) as [Hlt _].
        apply nth_error_None in Hn. lia. }
    assert (Hg : In m (group acts (br_name rl))) by (apply in_group_iff; auto).
    destruct (group acts (br_name rl)) as [|f others] eqn:Eg; [contradiction|].
    assert (Hfg : In f (group acts (br_name rl))) by (rewrite Eg; simpl; auto).
    apply in_group_iff in Hfg. destruct Hfg as [Hfm Hfr].
    rewrite (I1 (bp_rule p)) by (unfold kind_of; rewrite Hn; exact Hk).
    rewrite (rt0_value _ _ _ _ H1 Hn Eg). simpl. eapply C3; eauto. }
  assert (Hun : unassigned acts (phase4_binding o tok err rules prods rt acts) = []).
  { unfold unassigned. rewrite filter_nil_intro; auto.
    intros m Hm. apply in_actions in Hm. destruct Hm as [Hms Hact].
    apply negb_false_iff. apply existsb_exists.
    destruct (C6 m Hms Hact) as [pi [p [Hup [Hmo Ha]]]].
    destruct (Hsingle pi p Hup) as [m' [Hm' _]].
    pose proof Hup as [Hnp _]. assert (Hp : In p prods) by (eapply nth_error_In; eauto).
    assert (Hin : In m (matches o tok err rules rt acts p)).
    { apply in_matches. destruct Hmo as [_ Hr]. repeat split; auto.
      apply (is_match_iff o tok err rules prods ms); auto. apply Hacc; auto. }
    rewrite Hm' in Hin. destruct Hin as [->|[]].
    exists (pi, m_id m). split; [|simpl; apply Nat.eqb_refl].
    apply in_binding. exists p, m. split; auto. apply in_user_prods. exact Hup. }
  unfold assign_actions. rewrite Hwf. unfold assign_actions_wf.
  rewrite H0, H1, Hd, Hmiss, Hpan, Herr, Hun. eauto.
Qed.

(* B1 *)
Theorem binding_verdict_exact :
  (exists b rtl, assign_actions o tok err rules prods ms = BOk b rtl) <->
  binding_ok o tok err rules prods ms.
Proof.
  split.
  - intros [b [rtl H]]. exists rtl.
    eapply (binding_sound o tok err rules prods ms Hwf Hrefl Hsym Htrans); eauto.
  - intros [rtl H]. eapply binding_complete; eauto.
Qed.

(* and the verdict is never a panic or a fuel exhaustion *)
Theorem binding_no_panic :
  (exists b rtl, assign_actions o tok err rules prods ms = BOk b rtl) \/
  (exists ds, assign_actions o tok err rules prods ms = BErr ds).
Proof.
  unfold assign_actions. rewrite Hwf. unfold assign_actions_wf.
  destruct (phase0_errs ms) eqn:E0; [|right; eauto].
  destruct (phase1_errs o rules acts) eqn:E1; [|right; eauto].
  destruct derive_succeeds as [rt [Hd [I1 I2]]]. rewrite Hd.
  destruct (missing_rules rules rt) eqn:E3; [|right; eauto].
  destruct (phase4_panics o tok err rules prods rt acts) eqn:Ep.
  2:{ destruct (phase4_errs o tok err rules prods rt acts) eqn:E4; [|right; eauto].
      destruct (unassigned acts (phase4_binding o tok err rules prods rt acts)) eqn:E5;
        [left; eauto|right; eauto]. }
  exfalso. unfold phase4_panics in Ep. apply existsb_exists in Ep.
  destruct Ep as [[pi p] [Hin Hx]]. simpl in Hx.
  apply in_user_prods in Hin. destruct Hin as [Hnp Hk].
  destruct (matches o tok err rules rt acts p) as [|m [|m' l]] eqn:Em; try discriminate.
  apply negb_true_iff in Hx.
  assert (Hmm : In m (matches o tok err rules rt acts p)) by (rewrite Em; simpl; auto).
  apply in_matches in Hmm. destruct Hmm as [Hms [Hr _]].
  unfold kind_of in Hk. unfold name_of in Hr.
  destruct (nth_error rules (bp_rule p)) as [rl|] eqn:Hn.
  2:{ apply nth_error_In in Hnp. destruct (wf_prod_in _ _ _ p Hwf Hnp) as [Hlt _].
      apply nth_error_None in Hn. lia. }
  assert (Hg : In m (group acts (br_name rl))) by (apply in_group_iff; auto).
  destruct (group acts (br_name rl)) as [|f others] eqn:Eg; [contradiction|].
  rewrite (I1 (bp_rule p)) in Hx by (unfold kind_of; rewrite Hn; exact Hk).
  rewrite (rt0_value _ _ _ _ E1 Hn Eg) in Hx. simpl in Hx.
  destruct Hg as [<-|Hg].
  - rewrite Hrefl in Hx. discriminate.
  - rewrite (phase1_no_conflict o rules ms _ _ _ _ E1 Eg Hg) in Hx. discriminate.
Qed.

End Complete.

Print Assumptions binding_verdict_exact.
Print Assumptions binding_no_panic.


(* ------------------------------------------------------------------ *)
(* the hypotheses are satisfiable: the grammar s = x+ ; x = A of
   BindingProofs.cast_zero_refuted is well formed, has the desugared shape,
   and (since lox accepts it) satisfies the sentence *)
Example shape_ok_example : shape_ok ex_rules ex_prods [ex_on_s; ex_on_x].
Proof.
  split.
  - intros m rl Hm Hrl. simpl in Hm, Hrl.
    destruct Hm as [<-|[<-|[]]]; destruct Hrl as [<-|[<-|[<-|[<-|[]]]]];
      vm_compute; intros H; try reflexivity; discriminate H.
  - intros k r Hn K1 K2.
    destruct k as [|[|[|[|k]]]]; simpl in Hn;
      try (destruct k; discriminate Hn);
      inversion Hn; subst; simpl in K1, K2; try congruence.
    exists 4, (false, 2), true. split.
    + exists {| br_name := "x+"; br_kind := OneOrMore; br_prods := [3; 4] |}.
      split; [reflexivity|]. right; left. split; [left; reflexivity|]. split; [reflexivity|].
      exists 3, [], {| bp_rule := 3; bp_terms := [(false, 2)] |}, []. repeat split.
    + intros _. right. reflexivity.
Qed.

Example binding_ok_example : binding_ok ex_o 10 11 ex_rules ex_prods [ex_on_s; ex_on_x].
Proof.
  apply binding_verdict_exact.
  - vm_compute. reflexivity.
  - intros a. apply Nat.eqb_refl.
  - intros a b H. simpl in *. rewrite Nat.eqb_sym. exact H.
  - intros a b c H1 H2. simpl in *. apply Nat.eqb_eq in H1. apply Nat.eqb_eq in H2.
    apply Nat.eqb_eq. congruence.
  - apply shape_ok_example.
  - eexists. eexists. vm_compute. reflexivity.
Qed.

(* ------------------------------------------------------------------ *)
(* the executable shape check implies shape_ok *)
Lemma elem_okb_inv : forall rules prods pi,
  elem_okb rules prods pi = true ->
  exists p x xs, nth_error prods pi = Some p /\ bp_terms p = x :: xs /\
                 (fst x = true \/ kind_of rules (snd x) = NotGenerated).
Proof.
  intros rules prods pi H. unfold elem_okb in H.
  destruct (nth_error prods pi) as [p|]; [|discriminate].
  destruct (bp_terms p) as [|x xs] eqn:Ex; [discriminate|].
  exists p, x, xs. repeat split; auto. apply orb_prop in H. destruct H as [H|H]; auto.
  right. apply is_user_true. exact H.
Qed.

Lemma is_plusb_true : forall k, is_plusb k = true -> is_plus k.
Proof. unfold is_plus. destruct k; simpl; intros; try discriminate; auto. Qed.

Theorem shape_okb_sound : forall rules prods ms,
  shape_okb rules prods ms = true -> shape_ok rules prods ms.
Proof.
  intros rules prods ms H. unfold shape_okb in H. apply andb_prop in H.
  destruct H as [Hm Hg]. rewrite forallb_forall in Hm, Hg. split.
  - intros m rl Hms Hrl Hr. specialize (Hm m Hms). unfold meth_shape_okb in Hm.
    rewrite Hr in Hm. rewrite forallb_forall in Hm. specialize (Hm rl Hrl).
    rewrite String.eqb_refl in Hm. simpl in Hm. apply is_user_true. exact Hm.
  - intros k r Hn K1 K2. pose proof (Hg r (nth_error_In _ _ Hn)) as Hr.
    unfold gen_shape_okb in Hr.
    assert (Hplus : is_plus (br_kind r) ->
              match br_prods r with _ :: p1 :: _ => elem_okb rules prods p1 | _ => false end = true ->
              exists pi x sl, source_rel rules prods k pi x sl /\
                (sl = true -> fst x = true \/ kind_of rules (snd x) = NotGenerated)).
    { intros Kp He. destruct (br_prods r) as [|q [|p1 rest]] eqn:Hp; try discriminate.
      apply elem_okb_inv in He. destruct He as [p [x [xs [Hnp [Hx Hel]]]]].
      exists p1, x, true. split; auto. exists r. split; auto. right; left.
      split; auto. split; auto. exists q, rest, p, xs. auto. }
    assert (Hstar : is_star (br_kind r) ->
              match br_prods r with
              | p0 :: _ =>
                match nth_error prods p0 with
                | Some p =>
                  match bp_terms p with
                  | (false, c) :: _ =>
                    match nth_error rules c with
                    | Some rc =>
                      is_plusb (br_kind rc) &&
                      match br_prods rc with
                      | _ :: p1 :: _ => elem_okb rules prods p1
                      | _ => false
                      end
                    | None => false
                    end
                  | _ => false
                  end
                | None => false
                end
              | [] => false
              end = true ->
              exists pi x sl, source_rel rules prods k pi x sl /\
                (sl = true -> fst x = true \/ kind_of rules (snd x) = NotGenerated)).
    { intros Ks He. destruct (br_prods r) as [|p0 rest] eqn:Hp; [discriminate|].
      destruct (nth_error prods p0) as [p|] eqn:Hnp; [|discriminate].
      destruct (bp_terms p) as [|[[|] c] xs] eqn:Hx; try discriminate.
      destruct (nth_error rules c) as [rc|] eqn:Hnc; [|discriminate].
      apply andb_prop in He. destruct He as [Kc He]. apply is_plusb_true in Kc.
      destruct (br_prods rc) as [|q [|p1 rest']] eqn:Hpc; try discriminate.
      apply elem_okb_inv in He. destruct He as [pc [x [xs' [Hnpc [Hxc Hel]]]]].
      exists p0, x, true. split; auto. exists r. split; auto. right; right.
      split; auto. split; auto.
      exists rest, p, c, xs, rc, q, p1, rest', pc, xs'. repeat split; auto. }
    destruct (br_kind r) eqn:K; try congruence;
      try (apply Hplus; [unfold is_plus; auto|exact Hr]; fail);
      try (apply Hstar; [unfold is_star; auto|exact Hr]; fail).
    (* ZeroOrOne *)
    destruct (br_prods r) as [|p0 rest] eqn:Hp; [discriminate|].
    destruct (nth_error prods p0) as [p|] eqn:Hnp; [|discriminate].
    destruct (bp_terms p) as [|x xs] eqn:Hx; [discriminate|].
    exists p0, x, false. split; [|discriminate].
    exists r. split; auto. left. split; auto. split; auto. exists rest, p, xs. auto.
Qed.

Print Assumptions shape_okb_sound.
