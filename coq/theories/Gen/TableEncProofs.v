(* Theorems about the row-compressed table encoder (TableEnc.v, the model of
   internal/codegen/table.go) and the two readers of its output: Tables.find
   (the generated _Find) and LexAuto.decode_row (the lexer's row layout). *)
From Coq Require Import List ZArith Lia Bool Arith Sorted ZifyBool ZifyNat.
From Lox Require Import Parse.Tables Lex.LexAuto Gen.TableEnc.
Import ListNotations.
Local Open Scope Z_scope.

Ltac Zify.zify_post_hook ::= Z.div_mod_to_equations.

(* ================= E1: varint codes are prefix-free ================= *)

Definition in_range (x : Z) : Prop := - 2 ^ 31 <= x < 2 ^ 32.

Lemma uvarint_prefix_free : forall f u v s1 s2,
  uvarint f u ++ s1 = uvarint f v ++ s2 -> u = v /\ s1 = s2.
Proof.
  induction f as [|f IH]; intros u v s1 s2 H; cbn [uvarint] in H.
  - cbn [app] in H. inversion H. auto.
  - destruct (u <? 128) eqn:Hu; destruct (v <? 128) eqn:Hv; cbn [app] in H;
      inversion H as [[Hh Ht]].
    + auto.
    + exfalso. lia.
    + exfalso. lia.
    + apply IH in Ht. destruct Ht as [Hq Hs]. split; [lia | exact Hs].
Qed.

Lemma zigzag_inj : forall x y, zigzag x = zigzag y -> x = y.
Proof.
  intros x y. unfold zigzag.
  destruct (x <? 0) eqn:Hx; destruct (y <? 0) eqn:Hy; lia.
Qed.

Lemma zigzag_nonneg : forall x, 0 <= zigzag x.
Proof. intros x. unfold zigzag. destruct (x <? 0) eqn:Hx; lia. Qed.

(* zigzag is (x << 1) xor (x >> 63), the formula AppendVarint computes on
   two's-complement 64-bit words *)
Lemma zigzag_bits : forall x, - 2 ^ 63 <= x < 2 ^ 63 ->
  zigzag x = Z.lxor (Z.shiftl x 1) (Z.shiftr x 63).
Proof.
  intros x Hx. unfold zigzag.
  rewrite Z.shiftl_mul_pow2, Z.shiftr_div_pow2 by lia.
  change (2 ^ 63) with 9223372036854775808 in *. change (2 ^ 1) with 2.
  destruct (x <? 0) eqn:E.
  - replace (x / 9223372036854775808) with (-1) by lia.
    rewrite Z.lxor_m1_r. unfold Z.lnot. lia.
  - replace (x / 9223372036854775808) with 0 by lia.
    rewrite Z.lxor_0_r. lia.
Qed.

Lemma varint_prefix_free : forall x y s1 s2,
  varint x ++ s1 = varint y ++ s2 -> x = y /\ s1 = s2.
Proof.
  intros x y s1 s2 H. unfold varint in H.
  apply uvarint_prefix_free in H. destruct H as [Hz Hs].
  split; [apply zigzag_inj; exact Hz | exact Hs].
Qed.

Lemma uvarint_nonempty : forall f u, uvarint f u <> [].
Proof.
  intros f u. destruct f as [|f]; cbn [uvarint]; [discriminate|].
  destruct (u <? 128); discriminate.
Qed.

(* shape of the code: bytes, all but the last with the high bit set *)
Fixpoint cap (f : nat) : Z := match f with O => 128 | S f' => 128 * cap f' end.

Fixpoint code_shape (l : list Z) : Prop :=
  match l with
  | [] => False
  | [b] => 0 <= b < 128
  | b :: rest => 128 <= b < 256 /\ code_shape rest
  end.

Lemma uvarint_shape : forall f u, 0 <= u < cap f ->
  code_shape (uvarint f u) /\ (length (uvarint f u) <= S f)%nat.
Proof.
  induction f as [|f IH]; intros u Hu; cbn [uvarint cap] in *.
  - cbn. lia.
  - destruct (u <? 128) eqn:Hlt.
    + cbn. lia.
    + assert (Hq : 0 <= u / 128 < cap f) by lia.
      destruct (IH _ Hq) as [Hs Hl].
      split.
      * cbn [code_shape]. destruct (uvarint f (u / 128)) eqn:E.
        { exfalso. exact (uvarint_nonempty _ _ E). }
        { split; [lia | exact Hs]. }
      * cbn [length]. lia.
Qed.

(* an int32 / uint32 entry is coded on at most 5 bytes (binary.MaxVarintLen32),
   each a byte, the last one the only one below 128 *)
Theorem varint_shape : forall x, in_range x ->
  code_shape (varint x) /\ (length (varint x) <= 5)%nat.
Proof.
  intros x Hx. unfold in_range in Hx. unfold varint.
  assert (Hz : 0 <= zigzag x < cap 4).
  { unfold zigzag. cbn [cap]. destruct (x <? 0) eqn:E; lia. }
  assert (Hfuel : forall f u, 0 <= u < cap f -> forall g, uvarint (g + f) u = uvarint f u).
  { induction f as [|f IH]; intros u Hu g; cbn [cap] in Hu.
    - destruct g as [|g]; [reflexivity|]. cbn [Nat.add uvarint].
      destruct (u <? 128) eqn:E; [reflexivity | lia].
    - rewrite Nat.add_succ_r. cbn [uvarint].
      destruct (u <? 128) eqn:E; [reflexivity|].
      rewrite IH by lia. reflexivity. }
  change 9%nat with (5 + 4)%nat. rewrite Hfuel by exact Hz.
  apply uvarint_shape. exact Hz.
Qed.

Theorem row_key_injective : forall r1 r2, row_key r1 = row_key r2 -> r1 = r2.
Proof.
  induction r1 as [|x r1 IH]; intros r2 H; destruct r2 as [|y r2]; cbn [row_key] in H.
  - reflexivity.
  - exfalso. destruct (varint y) eqn:E; [exact (uvarint_nonempty _ _ E) | discriminate].
  - exfalso. destruct (varint x) eqn:E; [exact (uvarint_nonempty _ _ E) | discriminate].
  - apply varint_prefix_free in H. destruct H as [Hxy Hr].
    subst y. f_equal. apply IH. exact Hr.
Qed.

(* E1 as stated for 32-bit entries (the range in which [varint] is the Go
   function); the range hypotheses are not needed by the proof *)
Theorem row_key_injective_range : forall r1 r2,
  Forall in_range r1 -> Forall in_range r2 -> row_key r1 = row_key r2 -> r1 = r2.
Proof. intros r1 r2 _ _. apply row_key_injective. Qed.

(* ================= segments of an array ================= *)

Fixpoint seg (a : list Z) (i : Z) (l : list Z) : Prop :=
  match l with
  | [] => True
  | x :: l' => nthz a i = Some x /\ seg a (i + 1) l'
  end.

Lemma nthz_of_nat : forall a n, nthz a (Z.of_nat n) = nth_error a n.
Proof.
  intros a n. unfold nthz. destruct (Z.of_nat n <? 0) eqn:E; [lia|].
  rewrite Nat2Z.id. reflexivity.
Qed.

Lemma nthz_bound : forall a i x, nthz a i = Some x -> 0 <= i < Z.of_nat (length a).
Proof.
  intros a i x H. unfold nthz in H. destruct (i <? 0) eqn:E; [discriminate|].
  assert (Hn : nth_error a (Z.to_nat i) <> None) by congruence.
  apply nth_error_Some in Hn. lia.
Qed.

Lemma nthz_app_l : forall a b i x, nthz a i = Some x -> nthz (a ++ b) i = Some x.
Proof.
  intros a b i x H. pose proof (nthz_bound _ _ _ H) as Hb.
  unfold nthz in *. destruct (i <? 0) eqn:E; [discriminate|].
  rewrite nth_error_app1 by lia. exact H.
Qed.

Lemma nthz_app_r : forall p a i, 0 <= i -> nthz (p ++ a) (i + Z.of_nat (length p)) = nthz a i.
Proof.
  intros p a i Hi. unfold nthz.
  destruct (i <? 0) eqn:E; [lia|].
  destruct (i + Z.of_nat (length p) <? 0) eqn:E2; [lia|].
  rewrite nth_error_app2 by lia. f_equal. lia.
Qed.

Lemma seg_app_l : forall l a b i, seg a i l -> seg (a ++ b) i l.
Proof.
  induction l as [|x l IH]; intros a b i H; cbn [seg] in *; [exact I|].
  destruct H as [H1 H2]. split; [apply nthz_app_l; exact H1 | apply IH; exact H2].
Qed.

Lemma seg_shift : forall l p a i, 0 <= i -> seg a i l -> seg (p ++ a) (i + Z.of_nat (length p)) l.
Proof.
  induction l as [|x l IH]; intros p a i Hi H; cbn [seg] in *; [exact I|].
  destruct H as [H1 H2]. split.
  - rewrite nthz_app_r by exact Hi. exact H1.
  - replace (i + Z.of_nat (length p) + 1) with (i + 1 + Z.of_nat (length p)) by lia.
    apply IH; [lia | exact H2].
Qed.

Lemma seg_refl_at : forall l pre, seg (pre ++ l) (Z.of_nat (length pre)) l.
Proof.
  induction l as [|x l IH]; intros pre; cbn [seg]; [exact I|].
  split.
  - rewrite nthz_of_nat. rewrite nth_error_app2 by lia.
    rewrite Nat.sub_diag. reflexivity.
  - replace (pre ++ x :: l) with ((pre ++ [x]) ++ l) by (rewrite <- app_assoc; reflexivity).
    replace (Z.of_nat (length pre) + 1) with (Z.of_nat (length (pre ++ [x])))
      by (rewrite app_length; cbn [length]; lia).
    apply IH.
Qed.

Lemma seg_app : forall l1 l2 a i,
  seg a i (l1 ++ l2) <-> seg a i l1 /\ seg a (i + Z.of_nat (length l1)) l2.
Proof.
  induction l1 as [|x l1 IH]; intros l2 a i; cbn [app seg length].
  - replace (i + Z.of_nat 0) with i by lia. tauto.
  - rewrite IH.
    replace (i + 1 + Z.of_nat (length l1)) with (i + Z.of_nat (S (length l1))) by lia.
    tauto.
Qed.

Lemma seg_inj : forall l1 l2 a i,
  seg a i l1 -> seg a i l2 -> length l1 = length l2 -> l1 = l2.
Proof.
  induction l1 as [|x l1 IH]; intros l2 a i H1 H2 Hl; destruct l2 as [|y l2];
    cbn [length] in Hl; try discriminate; [reflexivity|].
  cbn [seg] in H1, H2. destruct H1 as [Hx H1]. destruct H2 as [Hy H2].
  f_equal; [congruence|]. apply (IH l2 a (i + 1)); [exact H1 | exact H2 | lia].
Qed.

Lemma seg_bound : forall l x a i,
  seg a i (x :: l) -> 0 <= i /\ i + Z.of_nat (length (x :: l)) <= Z.of_nat (length a).
Proof.
  induction l as [|y l IH]; intros x a i H.
  - cbn [seg] in H. destruct H as [H _]. apply nthz_bound in H. cbn [length]. lia.
  - change (seg a i (x :: y :: l)) with (nthz a i = Some x /\ seg a (i + 1) (y :: l)) in H.
    destruct H as [H1 H2]. apply nthz_bound in H1. apply IH in H2.
    cbn [length] in *. lia.
Qed.

Lemma seg_take : forall l a i, seg a i l -> take (length l) a i = Some l.
Proof.
  induction l as [|x l IH]; intros a i H; cbn [length take]; [reflexivity|].
  cbn [seg] in H. destruct H as [H1 H2]. rewrite H1, (IH _ _ H2). reflexivity.
Qed.

Lemma seg_take_pairs : forall ps a i,
  seg a i (flat_pairs ps) -> take_pairs (length ps) a i = Some ps.
Proof.
  induction ps as [|[k v] ps IH]; intros a i H; cbn [length take_pairs]; [reflexivity|].
  change LexRuntime.nthz with nthz.
  cbn [flat_pairs seg] in H. destruct H as [H1 [H2 H3]].
  replace (i + 1 + 1) with (i + 2) in H3 by lia.
  rewrite H1, H2, (IH _ _ H3). reflexivity.
Qed.

Lemma seg_take_triples : forall ts a i,
  seg a i (flat_triples ts) -> take_triples (length ts) a i = Some ts.
Proof.
  induction ts as [|[[lo hi] tg] ts IH]; intros a i H; cbn [length take_triples]; [reflexivity|].
  change LexRuntime.nthz with nthz.
  cbn [flat_triples seg] in H. destruct H as [H1 [H2 [H3 H4]]].
  replace (i + 1 + 1) with (i + 2) in * by lia.
  replace (i + 2 + 1) with (i + 3) in H4 by lia.
  rewrite H1, H2, H3, (IH _ _ H4). reflexivity.
Qed.

Lemma flat_pairs_length : forall ps, length (flat_pairs ps) = (2 * length ps)%nat.
Proof. induction ps as [|[k v] ps IH]; cbn [flat_pairs length]; lia. Qed.

Lemma flat_triples_length : forall ts, length (flat_triples ts) = (3 * length ts)%nat.
Proof. induction ts as [|[[a b] c] ts IH]; cbn [flat_triples length]; lia. Qed.

(* a length-prefixed row stored at offset [off] *)
Definition row_at (a : list Z) (off : Z) (row : list Z) : Prop :=
  seg a off (Z.of_nat (length row) :: row).

Lemma row_at_inj : forall a off r1 r2, row_at a off r1 -> row_at a off r2 -> r1 = r2.
Proof.
  intros a off r1 r2 H1 H2. unfold row_at in *. cbn [seg] in H1, H2.
  destruct H1 as [Hn1 H1]. destruct H2 as [Hn2 H2].
  apply (seg_inj r1 r2 a (off + 1)); [exact H1 | exact H2 |].
  rewrite Hn1 in Hn2. inversion Hn2. lia.
Qed.

Lemma row_at_read : forall a off row, row_at a off row ->
  nthz a off = Some (Z.of_nat (length row)) /\ seg a (off + 1) row /\
  0 <= off /\ off + 1 + Z.of_nat (length row) <= Z.of_nat (length a).
Proof.
  intros a off row H. unfold row_at in H. pose proof (seg_bound _ _ _ _ H) as Hb.
  cbn [seg] in H. destruct H as [H1 H2]. cbn [length] in Hb.
  repeat split; try assumption; lia.
Qed.

(* ================= the AddRow invariant ================= *)

Lemma lz_eqb_eq : forall a b, lz_eqb a b = true <-> a = b.
Proof.
  induction a as [|x a IH]; intros b; destruct b as [|y b]; cbn [lz_eqb];
    try (split; intros H; [discriminate | congruence]); [tauto|].
  rewrite andb_true_iff, Z.eqb_eq, IH. split; [intros [-> ->]; reflexivity | intros H; inversion H; auto].
Qed.

Record inv (t : tstate) (done : list (nat * list Z)) : Prop := {
  inv_max : -1 <= t_max t;
  inv_done : forall i row, In (i, row) done ->
    exists off, index_get (t_index t) i = Some off /\ row_at (t_arr t) off row /\
                rowmap_get (t_rowmap t) (row_key row) = Some off;
  inv_idx : forall i off, index_get (t_index t) i = Some off ->
    Z.of_nat i <= t_max t /\ exists row, In (i, row) done;
  inv_map : forall key off, rowmap_get (t_rowmap t) key = Some off ->
    exists row, key = row_key row /\ row_at (t_arr t) off row;
}.

Lemma inv_empty : inv empty_table [].
Proof.
  constructor; cbn.
  - lia.
  - intros i row [].
  - intros i off H. discriminate.
  - intros key off H. discriminate.
Qed.

Lemma inv_ext : forall t d1 d2, (forall p, In p d1 <-> In p d2) -> inv t d1 -> inv t d2.
Proof.
  intros t d1 d2 Hext H. constructor.
  - exact (inv_max _ _ H).
  - intros i row Hin. apply (inv_done _ _ H). apply Hext. exact Hin.
  - intros i off Hg. destruct (inv_idx _ _ H _ _ Hg) as [Hle [row Hin]].
    split; [exact Hle|]. exists row. apply Hext. exact Hin.
  - exact (inv_map _ _ H).
Qed.

Lemma add_row_inv : forall t done i row t',
  inv t done -> add_row t i row = Some t' ->
  inv t' ((i, row) :: done) /\ t_max t' = Z.of_nat i.
Proof.
  intros t done i row t' Hinv Hadd. unfold add_row in Hadd.
  destruct (Z.of_nat i <=? t_max t) eqn:Hle; [discriminate|].
  assert (Hgt : t_max t < Z.of_nat i) by lia. clear Hle.
  pose proof (inv_max _ _ Hinv) as Hmax.
  assert (Hold : forall j r, In (j, r) done -> j <> i).
  { intros j r Hin ->. destruct (inv_done _ _ Hinv _ _ Hin) as [o [Hg _]].
    apply (inv_idx _ _ Hinv) in Hg. lia. }
  destruct (rowmap_get (t_rowmap t) (row_key row)) as [ex|] eqn:Hget;
    inversion Hadd; subst t'; clear Hadd; (split; [|reflexivity]);
    constructor; cbn [t_max t_rowmap t_index t_arr].
  - (* shared row *) lia.
  - intros j r [Heq|Hin].
    + inversion Heq; subst j r. exists ex. cbn [index_get]. rewrite Nat.eqb_refl.
      split; [reflexivity|]. split; [|exact Hget].
      destruct (inv_map _ _ Hinv _ _ Hget) as [row0 [Hk Hat]].
      apply row_key_injective in Hk. subst row0. exact Hat.
    + destruct (inv_done _ _ Hinv _ _ Hin) as [o [Hg [Hat Hm]]].
      exists o. cbn [index_get].
      destruct (Nat.eqb i j) eqn:E.
      { apply Nat.eqb_eq in E. exfalso. apply (Hold _ _ Hin). auto. }
      auto.
  - intros j o Hg. cbn [index_get] in Hg. destruct (Nat.eqb i j) eqn:E.
    + apply Nat.eqb_eq in E. subst j. split; [lia|]. exists row. left. reflexivity.
    + destruct (inv_idx _ _ Hinv _ _ Hg) as [Hle [r Hin]].
      split; [lia|]. exists r. right. exact Hin.
  - exact (inv_map _ _ Hinv).
  - (* new row *) lia.
  - rewrite !Zlength_correct.
    intros j r [Heq|Hin].
    + inversion Heq; subst j r. exists (Z.of_nat (length (t_arr t))). cbn [index_get rowmap_get].
      rewrite Nat.eqb_refl.
      assert (Hrefl : lz_eqb (row_key row) (row_key row) = true) by (apply lz_eqb_eq; reflexivity).
      rewrite Hrefl. split; [reflexivity|]. split; [|reflexivity].
      unfold row_at. apply seg_refl_at.
    + destruct (inv_done _ _ Hinv _ _ Hin) as [o [Hg [Hat Hm]]].
      exists o. cbn [index_get rowmap_get].
      destruct (Nat.eqb i j) eqn:E.
      { apply Nat.eqb_eq in E. exfalso. apply (Hold _ _ Hin). auto. }
      split; [exact Hg|]. split; [apply seg_app_l; exact Hat|].
      destruct (lz_eqb (row_key row) (row_key r)) eqn:Ek.
      { apply lz_eqb_eq in Ek. rewrite Ek in Hget. congruence. }
      exact Hm.
  - intros j o Hg. cbn [index_get] in Hg. destruct (Nat.eqb i j) eqn:E.
    + apply Nat.eqb_eq in E. subst j. split; [lia|]. exists row. left. reflexivity.
    + destruct (inv_idx _ _ Hinv _ _ Hg) as [Hle [r Hin]].
      split; [lia|]. exists r. right. exact Hin.
  - rewrite !Zlength_correct.
    intros key o Hg. cbn [rowmap_get] in Hg.
    destruct (lz_eqb (row_key row) key) eqn:Ek.
    + apply lz_eqb_eq in Ek. inversion Hg; subst o. exists row. split; [auto|].
      unfold row_at. apply seg_refl_at.
    + destruct (inv_map _ _ Hinv _ _ Hg) as [r [Hk Hat]].
      exists r. split; [exact Hk | apply seg_app_l; exact Hat].
Qed.

Lemma add_rows_inv : forall rows t done t',
  inv t done -> add_rows t rows = Some t' -> inv t' (rev rows ++ done).
Proof.
  induction rows as [|[i row] rest IH]; intros t done t' Hinv H; cbn [add_rows rev] in *.
  - inversion H; subst t'. exact Hinv.
  - destruct (add_row t i row) as [t1|] eqn:E; [|discriminate].
    destruct (add_row_inv _ _ _ _ _ Hinv E) as [Hinv1 _].
    rewrite <- app_assoc. cbn [app]. apply (IH t1); assumption.
Qed.

Lemma build_inv : forall miss rows arr, build_with miss rows = Some arr ->
  exists t, inv t rows /\ arr = table_array_with miss t.
Proof.
  intros miss rows arr H. unfold build_with in H.
  destruct (add_rows empty_table rows) as [t|] eqn:E; [|discriminate].
  inversion H; subst arr. exists t. split; [|reflexivity].
  apply (inv_ext t (rev rows ++ [])).
  - intros p. rewrite app_nil_r. symmetry. apply in_rev.
  - apply (add_rows_inv rows empty_table); [exact inv_empty | exact E].
Qed.

(* ================= the final array ================= *)

Lemma nth_error_seq : forall n s i, (i < n)%nat -> nth_error (seq s n) i = Some (s + i)%nat.
Proof.
  induction n as [|n IH]; intros s i Hi; [lia|].
  destruct i as [|i]; cbn [seq nth_error]; [f_equal; lia|].
  rewrite IH by lia. f_equal. lia.
Qed.

Definition idx_entry (miss : Z) (t : tstate) (i : nat) : Z :=
  match index_get (t_index t) i with
  | Some x => x + (t_max t + 1)
  | None => miss
  end.

Lemma array_index : forall miss t i, -1 <= t_max t -> Z.of_nat i <= t_max t ->
  nthz (table_array_with miss t) (Z.of_nat i) = Some (idx_entry miss t i).
Proof.
  intros miss t i Hmax Hi. unfold table_array_with. rewrite nthz_of_nat.
  rewrite nth_error_app1 by (rewrite map_length, seq_length; lia).
  erewrite map_nth_error; [|apply nth_error_seq; lia]. reflexivity.
Qed.

Lemma array_row : forall miss t off row, -1 <= t_max t -> 0 <= off ->
  row_at (t_arr t) off row -> row_at (table_array_with miss t) (off + (t_max t + 1)) row.
Proof.
  intros miss t off row Hmax Hoff H. unfold row_at, table_array_with in *.
  set (idx := map _ _).
  replace (t_max t + 1) with (Z.of_nat (length idx))
    by (unfold idx; rewrite map_length, seq_length; lia).
  apply seg_shift; assumption.
Qed.

Lemma array_length : forall miss t, -1 <= t_max t ->
  Z.of_nat (length (table_array_with miss t)) = t_max t + 1 + Z.of_nat (length (t_arr t)).
Proof.
  intros miss t Hmax. unfold table_array_with.
  rewrite app_length, map_length, seq_length. lia.
Qed.

(* everything known about the entry of a row that was added *)
Lemma entry_spec : forall miss t rows i row, inv t rows -> In (i, row) rows ->
  exists off, 0 <= off /\ Z.of_nat i <= t_max t /\
    nthz (table_array_with miss t) (Z.of_nat i) = Some (off + (t_max t + 1)) /\
    row_at (table_array_with miss t) (off + (t_max t + 1)) row /\
    rowmap_get (t_rowmap t) (row_key row) = Some off.
Proof.
  intros miss t rows i row Hinv Hin.
  destruct (inv_done _ _ Hinv _ _ Hin) as [off [Hg [Hat Hm]]].
  destruct (inv_idx _ _ Hinv _ _ Hg) as [Hle _].
  pose proof (inv_max _ _ Hinv) as Hmax.
  destruct (row_at_read _ _ _ Hat) as [_ [_ [Hoff _]]].
  exists off. split; [exact Hoff|]. split; [exact Hle|]. split; [|split; [|exact Hm]].
  - rewrite array_index by assumption. unfold idx_entry. rewrite Hg. reflexivity.
  - apply array_row; assumption.
Qed.

Lemma read_row_at : forall arr i off row,
  nthz arr i = Some off -> row_at arr off row -> read_row arr i = Some row.
Proof.
  intros arr i off row Hi Hat. destruct (row_at_read _ _ _ Hat) as [Hn [Hs _]].
  unfold read_row. rewrite Hi, Hn.
  destruct (Z.of_nat (length row) <? 0) eqn:E; [lia|].
  rewrite Nat2Z.id. apply seg_take. exact Hs.
Qed.

(* ================= E2: array_decode ================= *)

Theorem array_decode_with : forall miss rows arr, build_with miss rows = Some arr ->
  (forall i row, In (i, row) rows ->
     read_row arr (Z.of_nat i) = Some row /\
     exists off, nthz arr (Z.of_nat i) = Some off /\
                 nthz arr off = Some (Z.of_nat (length row)) /\
                 seg arr (off + 1) row) /\
  (forall i m row', In (m, row') rows -> (i <= m)%nat -> ~ In i (map fst rows) ->
     nthz arr (Z.of_nat i) = Some miss /\ (miss < 0 -> read_row arr (Z.of_nat i) = None)).
Proof.
  intros miss rows arr H. destruct (build_inv _ _ _ H) as [t [Hinv ->]].
  split.
  - intros i row Hin.
    destruct (entry_spec miss _ _ _ _ Hinv Hin) as [off [Hoff [Hle [Hi [Hat Hm]]]]].
    split; [exact (read_row_at _ _ _ _ Hi Hat)|].
    exists (off + (t_max t + 1)). destruct (row_at_read _ _ _ Hat) as [Hn [Hs _]].
    auto.
  - intros i m row' Hin Him Hnot.
    destruct (entry_spec miss _ _ _ _ Hinv Hin) as [off [_ [Hle _]]].
    pose proof (inv_max _ _ Hinv) as Hmax.
    assert (Hi : nthz (table_array_with miss t) (Z.of_nat i) = Some miss).
    { rewrite array_index by lia. unfold idx_entry.
      destruct (index_get (t_index t) i) as [o|] eqn:Hg; [|reflexivity].
      exfalso. destruct (inv_idx _ _ Hinv _ _ Hg) as [_ [r Hr]].
      apply Hnot. change i with (fst (i, r)). apply in_map. exact Hr. }
    split; [exact Hi|].
    intros Hneg. unfold read_row. rewrite Hi.
    unfold nthz. destruct (miss <? 0) eqn:E; [reflexivity | lia].
Qed.

Theorem array_decode : forall rows arr, build rows = Some arr ->
  (forall i row, In (i, row) rows ->
     read_row arr (Z.of_nat i) = Some row /\
     exists off, nthz arr (Z.of_nat i) = Some off /\
                 nthz arr off = Some (Z.of_nat (length row)) /\
                 seg arr (off + 1) row) /\
  (forall i m row', In (m, row') rows -> (i <= m)%nat -> ~ In i (map fst rows) ->
     nthz arr (Z.of_nat i) = Some (-1) /\ read_row arr (Z.of_nat i) = None).
Proof.
  intros rows arr H. destruct (array_decode_with _ _ _ H) as [H1 H2].
  split; [exact H1|]. intros i m row' Hin Him Hnot.
  destruct (H2 _ _ _ Hin Him Hnot) as [Ha Hb]. split; [exact Ha | apply Hb; lia].
Qed.

(* ================= E3: offsets_in_bounds ================= *)

(* every entry of the index vector (positions 0 .. maxIndex) is the "missing"
   marker or the offset of a length-prefixed row of [rows] lying entirely
   inside arr, after the index vector *)
Theorem offsets_in_bounds_with : forall miss rows arr, build_with miss rows = Some arr ->
  forall i m row', In (m, row') rows -> (i <= m)%nat ->
  exists off, nthz arr (Z.of_nat i) = Some off /\
    (off = miss \/
     exists row, In (i, row) rows /\
       nthz arr off = Some (Z.of_nat (length row)) /\ seg arr (off + 1) row /\
       Z.of_nat m < off /\ off + 1 + Z.of_nat (length row) <= Z.of_nat (length arr)).
Proof.
  intros miss rows arr H i m row' Hin Him.
  destruct (build_inv _ _ _ H) as [t [Hinv ->]].
  destruct (entry_spec miss _ _ _ _ Hinv Hin) as [offm [_ [Hle _]]].
  pose proof (inv_max _ _ Hinv) as Hmax.
  exists (idx_entry miss t i). split; [apply array_index; lia|].
  unfold idx_entry. destruct (index_get (t_index t) i) as [o|] eqn:Hg; [|left; reflexivity].
  right. destruct (inv_idx _ _ Hinv _ _ Hg) as [_ [r Hr]]. exists r. split; [exact Hr|].
  destruct (entry_spec miss _ _ _ _ Hinv Hr) as [off [Hoff [_ [Hi [Hat _]]]]].
  rewrite array_index in Hi by lia. unfold idx_entry in Hi. rewrite Hg in Hi.
  inversion Hi as [Ho]. rewrite Ho.
  destruct (row_at_read _ _ _ Hat) as [Hn [Hs [_ Hb]]].
  repeat split; try assumption. lia.
Qed.

Theorem offsets_in_bounds : forall rows arr, build rows = Some arr ->
  forall i m row', In (m, row') rows -> (i <= m)%nat ->
  exists off, nthz arr (Z.of_nat i) = Some off /\
    (off = -1 \/
     exists row, In (i, row) rows /\
       nthz arr off = Some (Z.of_nat (length row)) /\ seg arr (off + 1) row /\
       Z.of_nat m < off /\ off + 1 + Z.of_nat (length row) <= Z.of_nat (length arr)).
Proof. intros rows arr H. exact (offsets_in_bounds_with _ _ _ H). Qed.

(* ================= E4: share_iff_identical ================= *)

Theorem share_iff_identical : forall miss rows arr, build_with miss rows = Some arr ->
  forall i1 r1 i2 r2, In (i1, r1) rows -> In (i2, r2) rows ->
  (nthz arr (Z.of_nat i1) = nthz arr (Z.of_nat i2) <-> r1 = r2).
Proof.
  intros miss rows arr H i1 r1 i2 r2 H1 H2.
  destruct (build_inv _ _ _ H) as [t [Hinv ->]].
  destruct (entry_spec miss _ _ _ _ Hinv H1) as [o1 [_ [_ [Hi1 [Hat1 Hm1]]]]].
  destruct (entry_spec miss _ _ _ _ Hinv H2) as [o2 [_ [_ [Hi2 [Hat2 Hm2]]]]].
  rewrite Hi1, Hi2. split.
  - intros Heq. inversion Heq as [Ho]. rewrite Ho in Hat1.
    exact (row_at_inj _ _ _ _ Hat1 Hat2).
  - intros ->. rewrite Hm1 in Hm2. inversion Hm2. reflexivity.
Qed.

(* ================= E5: find_is_assoc ================= *)

Fixpoint assoc_z (x : Z) (ps : list (Z * Z)) : option Z :=
  match ps with
  | [] => None
  | (k, v) :: rest => if k =? x then Some v else assoc_z x rest
  end.

Lemma find_scan_seg : forall arr x ps fuel i,
  seg arr i (flat_pairs ps) -> (length ps < fuel)%nat ->
  find_scan fuel arr i (i + 2 * Z.of_nat (length ps)) x =
  match assoc_z x ps with Some v => FFound v | None => FNone end.
Proof.
  intros arr x. induction ps as [|[k v] ps IH]; intros fuel i Hs Hf;
    (destruct fuel as [|fuel]; [lia|]); cbn [find_scan assoc_z length].
  - destruct (i <? i + 2 * Z.of_nat 0) eqn:E; [lia | reflexivity].
  - cbn [length] in Hf. cbn [flat_pairs seg] in Hs. destruct Hs as [H1 [H2 H3]].
    destruct (i <? i + 2 * Z.of_nat (S (length ps))) eqn:E; [|lia].
    rewrite H1. destruct (k =? x) eqn:Ek.
    + rewrite H2. reflexivity.
    + replace (i + 2 * Z.of_nat (S (length ps))) with (i + 2 + 2 * Z.of_nat (length ps)) by lia.
      replace (i + 1 + 1) with (i + 2) in H3 by lia.
      apply IH; [exact H3 | lia].
Qed.

Lemma assoc_z_in : forall x v ps, NoDup (map fst ps) -> In (x, v) ps -> assoc_z x ps = Some v.
Proof.
  intros x v. induction ps as [|[k w] ps IH]; intros Hnd Hin; [contradiction|].
  cbn [map fst] in Hnd. inversion Hnd as [|? ? Hnot Hnd']; subst.
  cbn [assoc_z]. destruct Hin as [Heq|Hin].
  - inversion Heq; subst. rewrite Z.eqb_refl. reflexivity.
  - destruct (k =? x) eqn:E.
    + apply Z.eqb_eq in E. subst k. exfalso. apply Hnot.
      change x with (fst (x, v)). apply in_map. exact Hin.
    + apply IH; assumption.
Qed.

Lemma assoc_z_notin : forall x ps, ~ In x (map fst ps) -> assoc_z x ps = None.
Proof.
  intros x. induction ps as [|[k w] ps IH]; intros Hnot; [reflexivity|].
  cbn [assoc_z]. cbn [map fst In] in Hnot. destruct (k =? x) eqn:E.
  - apply Z.eqb_eq in E. exfalso. apply Hnot. left. exact E.
  - apply IH. intros Hin. apply Hnot. right. exact Hin.
Qed.

(* _Find on a row of pairs returns the first match (keys need not be distinct) *)
Theorem find_first_match : forall miss rows arr s ps x,
  build_with miss rows = Some arr -> In (s, flat_pairs ps) rows ->
  find arr (Z.of_nat s) x = match assoc_z x ps with Some v => FFound v | None => FNone end.
Proof.
  intros miss rows arr s ps x H Hin.
  destruct (array_decode_with _ _ _ H) as [Hdec _].
  destruct (Hdec _ _ Hin) as [_ [off [Hi [Hn Hs]]]].
  unfold find. rewrite Hi, Hn.
  rewrite flat_pairs_length.
  replace (off + 1 + Z.of_nat (2 * length ps)) with (off + 1 + 2 * Z.of_nat (length ps)) by lia.
  apply find_scan_seg; [exact Hs | lia].
Qed.

Theorem find_is_assoc : forall rows arr s ps,
  build rows = Some arr -> In (s, flat_pairs ps) rows -> NoDup (map fst ps) ->
  (forall x v, In (x, v) ps -> find arr (Z.of_nat s) x = FFound v) /\
  (forall x, ~ In x (map fst ps) -> find arr (Z.of_nat s) x = FNone) /\
  (forall x, find arr (Z.of_nat s) x <> FCrash).
Proof.
  intros rows arr s ps H Hin Hnd. repeat split.
  - intros x v Hxv. rewrite (find_first_match _ _ _ _ _ x H Hin).
    rewrite (assoc_z_in _ _ _ Hnd Hxv). reflexivity.
  - intros x Hnot. rewrite (find_first_match _ _ _ _ _ x H Hin).
    rewrite (assoc_z_notin _ _ Hnot). reflexivity.
  - intros x. rewrite (find_first_match _ _ _ _ _ x H Hin).
    destruct (assoc_z x ps); discriminate.
Qed.

(* a state that has no row (a gap in the indices) makes _Find crash, it does
   not return "not found": emit_parser.go adds a row for every state *)
Theorem find_missing_crashes : forall rows arr i m row' x,
  build rows = Some arr -> In (m, row') rows -> (i <= m)%nat -> ~ In i (map fst rows) ->
  find arr (Z.of_nat i) x = FCrash.
Proof.
  intros rows arr i m row' x H Hin Him Hnot.
  destruct (array_decode _ _ H) as [_ Hmiss].
  destruct (Hmiss _ _ _ Hin Him Hnot) as [Hi _].
  unfold find. rewrite Hi. reflexivity.
Qed.

(* ================= E6: lex_row_decode ================= *)

Theorem lex_row_decode_with : forall miss rows arr s flag trans acts,
  build_with miss rows = Some arr -> In (s, encode_lex_row flag trans acts) rows ->
  decode_row arr (Z.of_nat s) = Some {| v_flag := flag; v_trans := trans; v_acts := acts |}.
Proof.
  intros miss rows arr s flag trans acts H Hin.
  destruct (array_decode_with _ _ _ H) as [Hdec _].
  destruct (Hdec _ _ Hin) as [_ [off [Hi [Hn Hs]]]].
  unfold encode_lex_row in Hn, Hs. rewrite Zlength_correct in Hn, Hs.
  cbn [seg] in Hs. destruct Hs as [Hfl [Hgn Hs]].
  apply seg_app in Hs. destruct Hs as [Htr Hac].
  rewrite flat_triples_length in Hac.
  cbn [length] in Hn. rewrite app_length, flat_triples_length, flat_pairs_length in Hn.
  replace (off + 1 + 1) with (off + 2) in * by lia.
  replace (off + 2 + 1) with (off + 3) in * by lia.
  replace (off + 3 + Z.of_nat (3 * length trans)) with (off + 3 + 3 * Z.of_nat (length trans)) in Hac by lia.
  unfold decode_row. change LexRuntime.nthz with nthz. rewrite Hi, Hn, Hfl, Hgn. cbv zeta.
  replace (Z.of_nat (S (S (3 * length trans + 2 * length acts))) - 2 - 3 * Z.of_nat (length trans))
    with (Z.of_nat (length acts) * 2) by lia.
  rewrite Z.div_mul by lia. rewrite Z.even_mul. cbn [Z.even].
  rewrite orb_true_r. cbn [negb].
  destruct (Z.of_nat (length trans) <? 0) eqn:E1; [lia|].
  destruct (Z.of_nat (length acts) * 2 <? 0) eqn:E2; [lia|].
  cbn [orb]. rewrite !Nat2Z.id.
  rewrite (seg_take_triples _ _ _ Htr), (seg_take_pairs _ _ _ Hac).
  destruct flag; reflexivity.
Qed.

(* the lexer tables use the uint32 instantiation *)
Theorem lex_row_decode : forall rows arr s flag trans acts,
  build_u rows = Some arr -> In (s, encode_lex_row flag trans acts) rows ->
  decode_row arr (Z.of_nat s) = Some {| v_flag := flag; v_trans := trans; v_acts := acts |}.
Proof. intros rows arr s flag trans acts. apply lex_row_decode_with. Qed.

(* ================= E7: build_total ================= *)

Lemma add_row_some : forall t i row, t_max t < Z.of_nat i ->
  exists t', add_row t i row = Some t' /\ t_max t' = Z.of_nat i.
Proof.
  intros t i row Hlt. unfold add_row.
  destruct (Z.of_nat i <=? t_max t) eqn:E; [lia|].
  destruct (rowmap_get (t_rowmap t) (row_key row)); eexists; split; reflexivity.
Qed.

Lemma add_row_none : forall t i row, Z.of_nat i <= t_max t -> add_row t i row = None.
Proof.
  intros t i row Hle. unfold add_row.
  destruct (Z.of_nat i <=? t_max t) eqn:E; [reflexivity | lia].
Qed.

Lemma add_rows_total : forall rows t,
  add_rows t rows <> None <-> increasing (t_max t) rows = true.
Proof.
  induction rows as [|[i row] rest IH]; intros t; cbn [add_rows increasing].
  - split; [reflexivity | discriminate].
  - destruct (t_max t <? Z.of_nat i) eqn:E.
    + destruct (add_row_some t i row ltac:(lia)) as [t' [Ha Hm]].
      rewrite Ha. cbn [andb]. rewrite <- Hm. apply IH.
    + rewrite add_row_none by lia. cbn [andb]. split; [congruence | discriminate].
Qed.

Theorem build_total : forall miss rows,
  (build_with miss rows <> None <-> increasing (-1) rows = true) /\
  (build_with miss rows = None <-> increasing (-1) rows = false).
Proof.
  intros miss rows. pose proof (add_rows_total rows empty_table) as Ht.
  cbn [t_max empty_table] in Ht. unfold build_with.
  destruct (add_rows empty_table rows) as [t|].
  - assert (Hinc : increasing (-1) rows = true) by (apply Ht; discriminate).
    rewrite Hinc. split; split; intros H; try reflexivity; discriminate.
  - assert (Hinc : increasing (-1) rows = false).
    { destruct (increasing (-1) rows); [|reflexivity]. exfalso. apply Ht; reflexivity. }
    rewrite Hinc. split; split; intros H; try reflexivity; try discriminate.
    exfalso. apply H. reflexivity.
Qed.

(* [increasing (-1)] is "the indices are strictly increasing" *)
Lemma increasing_sorted_from : forall rows p,
  increasing (Z.of_nat p) rows = true <-> Sorted lt (p :: map fst rows).
Proof.
  induction rows as [|[i row] rest IH]; intros p; cbn [increasing map fst].
  - split; [intros _; repeat constructor | reflexivity].
  - rewrite andb_true_iff, IH. split.
    + intros [Hlt Hs]. constructor; [exact Hs | constructor; lia].
    + intros Hs. inversion Hs as [|? ? Hs' Hhd]; subst. inversion Hhd; subst.
      split; [lia | exact Hs'].
Qed.

Theorem increasing_sorted : forall rows,
  increasing (-1) rows = true <-> Sorted lt (map fst rows).
Proof.
  intros rows. destruct rows as [|[i row] rest]; cbn [increasing map fst].
  - split; [intros _; constructor | reflexivity].
  - rewrite andb_true_iff, increasing_sorted_from. split; [tauto|].
    intros Hs. split; [lia | exact Hs].
Qed.

Theorem build_total_sorted : forall rows,
  build rows <> None <-> Sorted lt (map fst rows).
Proof.
  intros rows. rewrite <- increasing_sorted. apply (build_total (-1) rows).
Qed.

Print Assumptions row_key_injective.
Print Assumptions row_key_injective_range.
Print Assumptions varint_shape.
Print Assumptions array_decode.
Print Assumptions offsets_in_bounds.
Print Assumptions share_iff_identical.
Print Assumptions find_is_assoc.
Print Assumptions find_missing_crashes.
Print Assumptions lex_row_decode.
Print Assumptions build_total.
Print Assumptions build_total_sorted.
