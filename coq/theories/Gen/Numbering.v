(* Token numbering: which integer constant each terminal gets.

   lr1.NewGrammar adds the terminals EOF then ERROR; Grammar.AddTerminal
   appends with Index = len(Terminals).  Pass CreateNames (ast/spec.go ->
   unit.go -> statements, in order; ast/lexer_mode.go runs the pass over a
   mode's rules where the mode statement appears) calls AddTerminal for every
   token rule (ast/lexer_token_rule.go) and every @external name
   (ast/external_rule.go).  emit_base.go then emits `Name int = i` for the
   i-th terminal and _TokenToString, a switch over those constants whose
   default is "???".  (lr1.Terminal.Alias is never assigned anywhere in the
   tree, so the `t.Alias != "" ? t.Alias : t.Name` in the template is always
   t.Name.)

   The model covers specifications that pass CreateNames without error: a
   reserved name (EOF, ERROR), a malformed name or a redefinition is reported
   as an error, the terminal is not added, and no code is generated.
   Definitions only; theorems in NumberingProofs.v. *)
From Coq Require Import List ZArith String Bool.
Import ListNotations.
Local Open Scope string_scope.

Inductive decl :=
| DTok (name : string)            (* token rule: NAME = expr *)
| DExt (names : list string)      (* @external A B C *)
| DMode (body : list decl)        (* @mode m { ... } *)
| DOther.                         (* @macro, @frag, parser rule, ...: no terminal *)

(* the AddTerminal calls made while visiting one declaration, in order *)
Fixpoint decl_names (d : decl) : list string :=
  match d with
  | DTok n => [n]
  | DExt ns => ns
  | DMode body => flat_map decl_names body
  | DOther => []
  end.

Definition decls_names (ds : list decl) : list string := flat_map decl_names ds.

(* files (units) in order, statements in order *)
Definition spec_names (files : list (list decl)) : list string := flat_map decls_names files.

Definition terminals (files : list (list decl)) : list string :=
  "EOF" :: "ERROR" :: spec_names files.

(* the value of the constant emitted for name n: its position in Terminals *)
Fixpoint index_of (ts : list string) (n : string) : option nat :=
  match ts with
  | [] => None
  | x :: rest => if String.eqb x n then Some O else option_map S (index_of rest n)
  end.

(* _TokenToString *)
Definition token_to_string (ts : list string) (t : Z) : string :=
  if (t <? 0)%Z then "???"
  else match nth_error ts (Z.to_nat t) with
       | Some n => n
       | None => "???"
       end.

Example numbering_example :
  let ts := terminals [[DTok "NUM"; DOther; DMode [DTok "STR"; DOther; DTok "ESC"]; DExt ["A"; "B"]];
                       [DOther; DTok "ID"]] in
  ts = ["EOF"; "ERROR"; "NUM"; "STR"; "ESC"; "A"; "B"; "ID"] /\
  index_of ts "ESC" = Some 4%nat /\ index_of ts "ID" = Some 7%nat /\ index_of ts "X" = None /\
  token_to_string ts 4 = "ESC" /\ token_to_string ts 8 = "???" /\ token_to_string ts (-1) = "???".
Proof. vm_compute. repeat split; reflexivity. Qed.
