(* C15: x-y pairing of class items (internal/parser/parser.go on_char_class,
   mirrored by ClassModel.pair_items / class_items).  A class body written as a
   sequence of items, each a single CLASS_CHAR or CLASS_CHAR '-' CLASS_CHAR,
   is read back as exactly those items — whatever the characters are, the
   escaped dash (a CLASS_CHAR whose rune is 45) included. *)
From Coq Require Import List ZArith Bool Lia.
From Lox Require Import Rang3.RangeModel Rang3.ClassModel.
Import ListNotations.
Local Open Scope Z_scope.

Inductive citem := ISingle (c : Z) | IRange (a b : Z).

(* the tokens the ClassChar mode produces for an item: (false, r) = CLASS_CHAR with rune r, (true, 45) = CLASS_DASH *)
Definition render (it : citem) : list ctok :=
  match it with
  | ISingle c => [(false, c)]
  | IRange a b => [(false, a); (true, 45); (false, b)]
  end.

Definition denote (it : citem) : range :=
  match it with
  | ISingle c => (c, c)
  | IRange a b => (a, b)
  end.

Lemma render_head : forall it its, exists c rest, flat_map render (it :: its) = (false, c) :: rest.
Proof. intros [c|a b] its; simpl; eauto. Qed.

Lemma pair_items_render : forall its fuel,
  (length (flat_map render its) < fuel)%nat ->
  pair_items fuel (flat_map render its) = map denote its.
Proof.
  induction its as [|it its IH]; intros fuel Hf.
  - destruct fuel; reflexivity.
  - destruct fuel as [|f]; [simpl in Hf; lia|].
    destruct it as [c|a b].
    + (* single: the next token, if any, is a CLASS_CHAR *)
      change (flat_map render (ISingle c :: its)) with ((false, c) :: flat_map render its) in *.
      cbn [pair_items]. 
      destruct its as [|it' its'].
      * cbn [flat_map]. destruct f; reflexivity.
      * destruct (render_head it' its') as (c' & rest & E). rewrite E.
        cbn [snd map denote]. f_equal. rewrite <- E. apply IH.
        cbn [length] in Hf. lia.
    + change (flat_map render (IRange a b :: its))
        with ((false, a) :: (true, 45) :: (false, b) :: flat_map render its) in *.
      cbn [pair_items snd map denote]. f_equal. apply IH.
      cbn [length] in Hf. lia.
Qed.

Lemma pair_render : forall its, class_items (flat_map render its) = map denote its.
Proof. intros its. unfold class_items. apply pair_items_render. lia. Qed.

(* an unescaped dash that has no character on one side is a member, not an operator *)
Lemma pair_dash_edges : forall a,
  class_items [(false, a); (true, 45)] = [(a, a); (45, 45)] /\
  class_items [(true, 45); (false, a)] = [(45, 45); (a, a)] /\
  class_items [(false, a); (true, 45); (true, 45)] = [(a, 45)] /\
  class_items [(false, a); (false, 45); (false, a)] = [(a, a); (45, 45); (a, a)].
Proof. intros a. repeat split; reflexivity. Qed.

Print Assumptions pair_render.
