(* Theorems about Binding.v (property C06).  See the end of the file for the
   list of targets and their Print Assumptions. *)
From Coq Require Import List String Arith Bool Lia.
From Lox Require Import Gen.Binding.
Import ListNotations.
Local Open Scope string_scope.
Local Open Scope nat_scope.
Local Open Scope list_scope.

(* ------------------------------------------------------------------ *)
(* generic list facts *)

Lemma in_combine_seq : forall A (l : list A) s i x,
  In (i, x) (combine (seq s (List.length l)) l) <->
  (s <= i /\ nth_error l (i - s) = Some x).
Proof.
  induction l as [|a l IH]; intros s i x; simpl.
  - split; [tauto|]. intros [_ H]. destruct (i - s); discriminate.
  - split.
    + intros [H | H].
      * inversion H; subst. split; [lia|]. rewrite Nat.sub_diag. reflexivity.
      * apply IH in H. destruct H as [H1 H2]. split; [lia|].
        replace (i - s) with (S (i - S s)) by lia. exact H2.
    + intros [H1 H2]. destruct (Nat.eq_dec i s) as [->|Hne].
      * rewrite Nat.sub_diag in H2. simpl in H2. inversion H2. left; reflexivity.
      * right. apply IH. split; [lia|].
        replace (i - s) with (S (i - S s)) in H2 by lia. exact H2.
Qed.

Lemma in_indexed : forall A (l : list A) i x,
  In (i, x) (indexed l) <-> nth_error l i = Some x.
Proof.
  intros. unfold indexed. rewrite in_combine_seq. rewrite Nat.sub_0_r.
  split; [tauto|]. intros; split; [lia|auto].
Qed.

Lemma map_fst_combine : forall A B (a : list A) (b : list B),
  List.length a = List.length b -> map fst (combine a b) = a.
Proof.
  induction a as [|x a IH]; destruct b; simpl; intros H; try discriminate; auto.
  f_equal. apply IH. lia.
Qed.

Lemma indexed_fst : forall A (l : list A), map fst (indexed l) = seq 0 (List.length l).
Proof. intros. unfold indexed. apply map_fst_combine. apply seq_length. Qed.

Lemma indexed_nodup : forall A (l : list A), NoDup (map fst (indexed l)).
Proof. intros. rewrite indexed_fst. apply seq_NoDup. Qed.

Lemma nodup_map_filter : forall A B (g : A -> B) (f : A -> bool) l,
  NoDup (map g l) -> NoDup (map g (filter f l)).
Proof.
  induction l as [|a l IH]; simpl; intros H; auto.
  inversion H; subst. destruct (f a); simpl; auto.
  constructor; auto. intros Hin. apply H2.
  apply in_map_iff in Hin. destruct Hin as [y [Hy Hin]].
  apply filter_In in Hin. apply in_map_iff. exists y. tauto.
Qed.

Lemma nodup_fst_functional : forall A B (b : list (A * B)) k v v',
  NoDup (map fst b) -> In (k, v) b -> In (k, v') b -> v = v'.
Proof.
  induction b as [|[k0 v0] b IH]; simpl; intros k v v' Hnd H1 H2; [contradiction|].
  inversion Hnd; subst.
  destruct H1 as [H1|H1]; destruct H2 as [H2|H2].
  - congruence.
  - inversion H1; subst. exfalso. apply H3. apply in_map_iff. exists (k, v'). auto.
  - inversion H2; subst. exfalso. apply H3. apply in_map_iff. exists (k, v). auto.
  - eapply IH; eauto.
Qed.

Lemma flat_map_nil : forall A B (f : A -> list B) l,
  flat_map f l = [] -> forall x, In x l -> f x = [].
Proof.
  induction l as [|a l IH]; simpl; intros H x Hin; [contradiction|].
  apply app_eq_nil in H. destruct H as [Ha Hl].
  destruct Hin as [<-|Hin]; auto.
Qed.

Lemma flat_map_nil_intro : forall A B (f : A -> list B) l,
  (forall x, In x l -> f x = []) -> flat_map f l = [].
Proof.
  induction l as [|a l IH]; simpl; intros H; auto.
  rewrite (H a) by auto. simpl. apply IH. auto.
Qed.

Lemma keys_flat_map_fst : forall A B (f : nat * A -> list (nat * B)) l,
  (forall x, In x l -> f x = [] \/ exists y, f x = [(fst x, y)]) ->
  forall k, In k (map fst (flat_map f l)) -> In k (map fst l).
Proof.
  induction l as [|a l IH]; simpl; intros H k Hin; auto.
  rewrite map_app in Hin. apply in_app_or in Hin. destruct Hin as [Hin|Hin].
  - destruct (H a (or_introl eq_refl)) as [E|[y E]]; rewrite E in Hin; simpl in Hin.
    + contradiction.
    + destruct Hin as [<-|[]]. auto.
  - right. apply IH; auto.
Qed.

Lemma nodup_flat_map_fst : forall A B (f : nat * A -> list (nat * B)) l,
  NoDup (map fst l) ->
  (forall x, In x l -> f x = [] \/ exists y, f x = [(fst x, y)]) ->
  NoDup (map fst (flat_map f l)).
Proof.
  induction l as [|a l IH]; simpl; intros Hnd H; [constructor|].
  inversion Hnd; subst. rewrite map_app.
  destruct (H a (or_introl eq_refl)) as [E|[y E]]; rewrite E; simpl.
  - apply IH; auto.
  - constructor.
    + intros Hin. apply H2. eapply keys_flat_map_fst; eauto.
    + apply IH; auto.
Qed.

Lemma Forall2_len : forall A B (R : A -> B -> Prop) l l',
  Forall2 R l l' -> List.length l = List.length l'.
Proof. induction 1; simpl; auto. Qed.

(* sort_diags only permutes *)
Lemma in_insert_diag : forall d x l, In d (insert_diag x l) <-> d = x \/ In d l.
Proof.
  induction l as [|y l IH]; simpl.
  - intuition.
  - destruct (diag_leb x y); simpl.
    + intuition.
    + rewrite IH. intuition.
Qed.

Lemma in_sort_diags : forall d l, In d (sort_diags l) <-> In d l.
Proof.
  induction l as [|x l IH]; simpl; [tauto|].
  rewrite in_insert_diag, IH. intuition.
Qed.

(* ------------------------------------------------------------------ *)
(* facts about the helper functions of the model *)

Lemma nodup_natb_sound : forall l, nodup_natb l = true -> NoDup l.
Proof.
  induction l as [|x l IH]; simpl; intros H; [constructor|].
  apply andb_prop in H. destruct H as [H1 H2]. constructor; auto.
  intros Hin. apply negb_true_iff in H1.
  assert (existsb (Nat.eqb x) l = true).
  { apply existsb_exists. exists x. split; auto. apply Nat.eqb_refl. }
  congruence.
Qed.

Lemma nodup_strb_sound : forall l, nodup_strb l = true -> NoDup l.
Proof.
  induction l as [|x l IH]; simpl; intros H; [constructor|].
  apply andb_prop in H. destruct H as [H1 H2]. constructor; auto.
  intros Hin. apply negb_true_iff in H1.
  assert (existsb (String.eqb x) l = true).
  { apply existsb_exists. exists x. split; auto. apply String.eqb_refl. }
  congruence.
Qed.

Lemma find_rule_from_some : forall rules s name j,
  find_rule_from s rules name = Some j ->
  s <= j /\ exists r, nth_error rules (j - s) = Some r /\ br_name r = name.
Proof.
  induction rules as [|r rules IH]; simpl; intros s name j H; [discriminate|].
  destruct (find_rule_from (S s) rules name) as [j'|] eqn:E.
  - inversion H; subst. apply IH in E. destruct E as [Hle [r' [Hn Hname]]].
    split; [lia|]. exists r'. split; auto.
    replace (j - s) with (S (j - S s)) by lia. exact Hn.
  - destruct (String.eqb (br_name r) name) eqn:En; [|discriminate].
    inversion H; subst. split; [lia|]. exists r. rewrite Nat.sub_diag. split; auto.
    apply String.eqb_eq; auto.
Qed.

Lemma find_rule_from_none : forall rules s name,
  find_rule_from s rules name = None -> forall r, In r rules -> br_name r <> name.
Proof.
  induction rules as [|r rules IH]; simpl; intros s name H r0 Hin; [contradiction|].
  destruct (find_rule_from (S s) rules name) eqn:E; [discriminate|].
  destruct (String.eqb (br_name r) name) eqn:En; [discriminate|].
  destruct Hin as [<-|Hin].
  - apply String.eqb_neq; auto.
  - eapply IH; eauto.
Qed.

Lemma find_rule_some : forall rules name j,
  find_rule rules name = Some j ->
  exists r, nth_error rules j = Some r /\ br_name r = name.
Proof.
  unfold find_rule. intros rules name j H. apply find_rule_from_some in H.
  rewrite Nat.sub_0_r in H. tauto.
Qed.

Lemma nodup_names_index : forall (rules : list brule) i j r r',
  NoDup (map br_name rules) ->
  nth_error rules i = Some r -> nth_error rules j = Some r' ->
  br_name r = br_name r' -> i = j.
Proof.
  intros rules i j r r' Hnd Hi Hj Hn.
  assert (Hi' : nth_error (map br_name rules) i = Some (br_name r)) by (apply map_nth_error; auto).
  assert (Hj' : nth_error (map br_name rules) j = Some (br_name r')) by (apply map_nth_error; auto).
  rewrite <- Hn in Hj'.
  eapply (proj1 (NoDup_nth_error (map br_name rules))); eauto.
  - apply nth_error_Some. congruence.
  - congruence.
Qed.

Lemma rt_get_in : forall rt i x, rt_get rt i = x -> x <> INil -> In (i, x) rt.
Proof.
  induction rt as [|[j t] rt IH]; simpl; intros i x H Hx; [congruence|].
  destruct (j =? i) eqn:E.
  - apply Nat.eqb_eq in E. subst. auto.
  - right. apply IH; auto.
Qed.

Lemma rt_get_nonnil : forall rt i x,
  (forall e, In e rt -> snd e <> INil) -> In (i, x) rt -> rt_get rt i <> INil.
Proof.
  induction rt as [|[j t] rt IH]; simpl; intros i x Hall Hin; [contradiction|].
  destruct (j =? i) eqn:E.
  - apply (Hall (j, t)). auto.
  - destruct Hin as [Hin|Hin].
    + inversion Hin; subst. rewrite Nat.eqb_refl in E. discriminate.
    + eapply IH; eauto.
Qed.

Lemma ity_is_nil_true : forall t, ity_is_nil t = true <-> t = INil.
Proof. destruct t; simpl; split; intros; congruence. Qed.

Lemma is_user_true : forall k, is_user k = true <-> k = NotGenerated.
Proof. destruct k; simpl; split; intros; congruence. Qed.

Lemma is_sprime_true : forall k, is_sprime k = true <-> k = SPrime.
Proof. destruct k; simpl; split; intros; congruence. Qed.

(* ------------------------------------------------------------------ *)

Section Proofs.
Variable o : oracle.
Variables tok err : ty.
Variable rules : list brule.
Variable prods : list bprod.
Variable ms : list meth.

Notation acts := (actions ms).

(* the type assignment the specification talks about: a list rule -> type *)
Definition term_has_ty (rtl : list (nat * ty)) (t : bool * nat) (s : ty) : Prop :=
  if fst t then s = terminal_ty tok err (snd t) else In (snd t, s) rtl.

(* matchMethod's test, as a proposition: same length, and each parameter
   type accepts the type of the term at its position by Go assignability *)
Definition accepts (rtl : list (nat * ty)) (m : meth) (p : bprod) : Prop :=
  Forall2 (fun q t => exists s, term_has_ty rtl t s /\ assignable o s q = true)
          (m_params m) (bp_terms p).

Lemma accepts_length : forall rtl m p,
  accepts rtl m p -> List.length (m_params m) = List.length (bp_terms p).
Proof. intros rtl m p H. eapply Forall2_len; eauto. Qed.

Lemma rule_types_in : forall rt i t,
  In (i, t) (rule_types_of rules rt) <-> (i < List.length rules /\ rt_get rt i = IT t).
Proof.
  intros rt i t. unfold rule_types_of. rewrite in_flat_map. split.
  - intros [[j r] [Hin H]]. simpl in H.
    destruct (rt_get rt j) eqn:E; simpl in H; try contradiction.
    destruct H as [H|[]]. inversion H; subst. split; auto.
    apply in_indexed in Hin. apply nth_error_Some. congruence.
  - intros [Hlt E]. destruct (nth_error rules i) as [r|] eqn:En.
    + exists (i, r). split; [apply in_indexed; auto|]. simpl. rewrite E. simpl. auto.
    + apply nth_error_None in En. lia.
Qed.

Lemma term_ity_has_ty : forall rt t s,
  wf_term rules t = true ->
  (term_ity tok err rt t = IT s <-> term_has_ty (rule_types_of rules rt) t s).
Proof.
  intros rt [b i] s Hwf. unfold term_ity, term_has_ty, wf_term in *. simpl in *.
  destruct b; simpl in *.
  - split; intros H; congruence.
  - rewrite rule_types_in. apply andb_prop in Hwf. destruct Hwf as [Hlt _].
    apply Nat.ltb_lt in Hlt. tauto.
Qed.

Lemma params_match_iff : forall rt params terms,
  forallb (wf_term rules) terms = true ->
  (params_match o tok err rt params terms = true <->
   Forall2 (fun q t => exists s, term_has_ty (rule_types_of rules rt) t s /\
                                 assignable o s q = true) params terms).
Proof.
  induction params as [|q params IH]; intros [|t terms] Hwf; simpl.
  - split; auto.
  - split; [discriminate|]. intros H; inversion H.
  - split; [discriminate|]. intros H; inversion H.
  - simpl in Hwf. apply andb_prop in Hwf. destruct Hwf as [Hw1 Hw2]. split.
    + intros H. destruct (term_ity tok err rt t) as [|s|] eqn:E; try discriminate.
      apply andb_prop in H. destruct H as [Ha Hm]. constructor.
      * exists s. split; auto. apply term_ity_has_ty; auto.
      * apply IH; auto.
    + intros H. inversion H; subst. destruct H3 as [s [Hs Ha]].
      apply term_ity_has_ty in Hs; auto. rewrite Hs, Ha. simpl. apply IH; auto.
Qed.

(* what wf_input provides *)
Lemma wf_prod_in : forall p,
  wf_input rules prods ms = true -> In p prods ->
  bp_rule p < List.length rules /\ forallb (wf_term rules) (bp_terms p) = true.
Proof.
  intros p Hwf Hin. unfold wf_input in Hwf.
  repeat (apply andb_prop in Hwf; destruct Hwf as [Hwf ?]).
  rewrite forallb_forall in Hwf. apply Hwf in Hin. unfold wf_prod in Hin.
  apply andb_prop in Hin. destruct Hin as [Ha Hb]. apply Nat.ltb_lt in Ha. auto.
Qed.

Lemma wf_names : wf_input rules prods ms = true -> NoDup (map br_name rules).
Proof.
  intros Hwf. unfold wf_input in Hwf.
  repeat (apply andb_prop in Hwf; destruct Hwf as [Hwf ?]).
  apply nodup_strb_sound; auto.
Qed.

Lemma wf_ids : wf_input rules prods ms = true -> NoDup (map m_id ms).
Proof.
  intros Hwf. unfold wf_input in Hwf.
  repeat (apply andb_prop in Hwf; destruct Hwf as [Hwf ?]).
  apply nodup_natb_sound; auto.
Qed.

Lemma is_match_iff : forall rt p m,
  wf_input rules prods ms = true -> In p prods ->
  (is_match o tok err rt p m = true <-> accepts (rule_types_of rules rt) m p).
Proof.
  intros rt p m Hwf Hin. unfold is_match, accepts.
  apply params_match_iff. apply wf_prod_in; auto.
Qed.

(* membership in the groups *)
Lemma in_actions : forall m, In m acts <-> In m ms /\ is_action m = true.
Proof. intros m. unfold actions. apply filter_In. Qed.

Lemma in_group_iff : forall r m,
  In m (group acts r) <-> In m ms /\ rule_of m = Some r.
Proof.
  intros r m. unfold group. rewrite filter_In, in_actions. unfold in_group, is_action.
  destruct (rule_of m) as [r'|] eqn:E.
  - split.
    + intros [[H1 _] H2]. apply String.eqb_eq in H2. subst. auto.
    + intros [H1 H2]. inversion H2; subst. rewrite String.eqb_refl. auto.
  - split; [intros [_ H]; discriminate | intros [_ H]; discriminate].
Qed.

Lemma in_group_names : forall r,
  In r (group_names acts) <-> exists m, In m ms /\ rule_of m = Some r.
Proof.
  intros r. unfold group_names. rewrite nodup_In, in_flat_map. split.
  - intros [m [Hm H]]. destruct (rule_of m) as [r'|] eqn:E; simpl in H; [|contradiction].
    destruct H as [<-|[]]. exists m. apply in_actions in Hm. tauto.
  - intros [m [Hm E]]. exists m. split.
    + apply in_actions. split; auto. unfold is_action. rewrite E. auto.
    + rewrite E. simpl. auto.
Qed.

Lemma in_user_prods : forall pi p,
  In (pi, p) (user_prods rules prods) <->
  nth_error prods pi = Some p /\ kind_of rules (bp_rule p) = NotGenerated.
Proof.
  intros pi p. unfold user_prods. rewrite filter_In, in_indexed. unfold user_prod. simpl.
  rewrite is_user_true. tauto.
Qed.

(* ------------------------------------------------------------------ *)
(* inversion of the phases *)

Definition rt_final (rt : rtypes) : Prop :=
  phase0_errs ms = [] /\
  phase1_errs o rules acts = [] /\
  derive o tok err rules prods (derive_fuel rules) (phase1_types o rules acts) = DvOk rt /\
  missing_rules rules rt = [].

Lemma assign_ok_inv : forall b rtl,
  assign_actions o tok err rules prods ms = BOk b rtl ->
  wf_input rules prods ms = true /\
  exists rt, rt_final rt /\
    phase4_panics o tok err rules prods rt acts = false /\
    phase4_errs o tok err rules prods rt acts = [] /\
    unassigned acts (phase4_binding o tok err rules prods rt acts) = [] /\
    b = phase4_binding o tok err rules prods rt acts /\
    rtl = rule_types_of rules rt.
Proof.
  intros b rtl H. unfold assign_actions in H.
  destruct (wf_input rules prods ms) eqn:Hwf; [|discriminate]. split; auto.
  unfold assign_actions_wf in H.
  destruct (phase0_errs ms) eqn:E0; [|discriminate].
  destruct (phase1_errs o rules acts) eqn:E1; [|discriminate].
  destruct (derive o tok err rules prods (derive_fuel rules) (phase1_types o rules acts))
    as [s| |rt] eqn:Ed; try discriminate.
  destruct (missing_rules rules rt) eqn:E3; [|discriminate].
  destruct (phase4_panics o tok err rules prods rt acts) eqn:Ep; [discriminate|].
  destruct (phase4_errs o tok err rules prods rt acts) eqn:E4; [|discriminate].
  destruct (unassigned acts (phase4_binding o tok err rules prods rt acts)) eqn:E5; [|discriminate].
  inversion H; subst. exists rt. unfold rt_final. repeat split; auto.
Qed.

Lemma assign_err_inv : forall ds,
  assign_actions o tok err rules prods ms = BErr ds ->
  wf_input rules prods ms = true /\
  exists e, ds = sort_diags e /\ e <> [] /\
    (e = phase0_errs ms \/
     (phase0_errs ms = [] /\ e = phase1_errs o rules acts) \/
     (phase0_errs ms = [] /\ phase1_errs o rules acts = [] /\
      exists rt,
        derive o tok err rules prods (derive_fuel rules) (phase1_types o rules acts) = DvOk rt /\
        (e = missing_rules rules rt \/
         (rt_final rt /\ e = phase4_errs o tok err rules prods rt acts) \/
         (rt_final rt /\ phase4_errs o tok err rules prods rt acts = [] /\
          e = unassigned acts (phase4_binding o tok err rules prods rt acts))))).
Proof.
  intros ds H. unfold assign_actions in H.
  destruct (wf_input rules prods ms) eqn:Hwf; [|discriminate]. split; auto.
  unfold assign_actions_wf in H.
  destruct (phase0_errs ms) eqn:E0.
  2:{ rewrite <- E0 in H. injection H as Hds; subst ds. eexists. split; [reflexivity|].
      split; [rewrite E0; discriminate|]. auto. }
  destruct (phase1_errs o rules acts) eqn:E1.
  2:{ rewrite <- E1 in H. injection H as Hds; subst ds. eexists. split; [reflexivity|].
      split; [rewrite E1; discriminate|]. auto. }
  destruct (derive o tok err rules prods (derive_fuel rules) (phase1_types o rules acts))
    as [s| |rt] eqn:Ed; try discriminate.
  destruct (missing_rules rules rt) eqn:E3.
  2:{ rewrite <- E3 in H. injection H as Hds; subst ds. eexists. split; [reflexivity|].
      split; [rewrite E3; discriminate|].
      right; right. repeat split; auto. exists rt. split; auto. }
  destruct (phase4_panics o tok err rules prods rt acts) eqn:Ep; [discriminate|].
  assert (Hfin : rt_final rt) by (unfold rt_final; rewrite E0, E1; auto).
  destruct (phase4_errs o tok err rules prods rt acts) eqn:E4.
  2:{ rewrite <- E4 in H. injection H as Hds; subst ds. eexists. split; [reflexivity|].
      split; [rewrite E4; discriminate|].
      right; right. repeat split; auto. exists rt. split; auto. }
  destruct (unassigned acts (phase4_binding o tok err rules prods rt acts)) eqn:E5; [discriminate|].
  rewrite <- E5 in H. injection H as Hds; subst ds. eexists. split; [reflexivity|].
  split; [rewrite E5; discriminate|].
  right; right. repeat split; auto. exists rt. split; auto.
Qed.


(* ------------------------------------------------------------------ *)
(* the types of rules, declaratively.  has_type i t: rule i has Go type t
   - from an action method: the result type of the first method of its name;
   - `c?`: the type of c (a terminal has getTermGoType: error type for
     ERROR, Token otherwise);
   - `c+`, `c+!`, `@list(c,s)`: slice of the type of c (second production);
   - `c*`, `c*!`: the type of its `c+` rule. *)

Definition is_plus (k : rkind') : Prop := k = OneOrMore \/ k = OneOrMoreF \/ k = ListK.
Definition is_star (k : rkind') : Prop := k = ZeroOrMore \/ k = ZeroOrMoreF.

Definition elem_type (ht : nat -> ty -> Prop) (x : bool * nat) (t : ty) : Prop :=
  (fst x = true /\ t = terminal_ty tok err (snd x)) \/ (fst x = false /\ ht (snd x) t).

Inductive has_type : nat -> ty -> Prop :=
| HT_meth : forall i r f others,
    nth_error rules i = Some r -> group acts (br_name r) = f :: others ->
    has_type i (ret f)
| HT_opt : forall i r p0 rest p x xs t,
    nth_error rules i = Some r -> br_kind r = ZeroOrOne ->
    br_prods r = p0 :: rest -> nth_error prods p0 = Some p -> bp_terms p = x :: xs ->
    ((fst x = true /\ t = terminal_ty tok err (snd x)) \/ (fst x = false /\ has_type (snd x) t)) ->
    has_type i t
| HT_plus : forall i r q p1 rest p x xs t,
    nth_error rules i = Some r -> is_plus (br_kind r) ->
    br_prods r = q :: p1 :: rest -> nth_error prods p1 = Some p -> bp_terms p = x :: xs ->
    ((fst x = true /\ t = terminal_ty tok err (snd x)) \/ (fst x = false /\ has_type (snd x) t)) ->
    has_type i (slice_of o t)
| HT_star : forall i r p0 rest p c xs rc q p1 rest' pc x xs' t,
    nth_error rules i = Some r -> is_star (br_kind r) ->
    br_prods r = p0 :: rest -> nth_error prods p0 = Some p -> bp_terms p = (false, c) :: xs ->
    nth_error rules c = Some rc -> is_plus (br_kind rc) ->
    br_prods rc = q :: p1 :: rest' -> nth_error prods p1 = Some pc -> bp_terms pc = x :: xs' ->
    ((fst x = true /\ t = terminal_ty tok err (snd x)) \/ (fst x = false /\ has_type (snd x) t)) ->
    has_type i (slice_of o t).

Definition rt_sound (rt : rtypes) : Prop := forall i t, rt_get rt i = IT t -> has_type i t.

Definition first_term_spec (rt : rtypes) (x : bool * nat) (e : ity) : Prop :=
  (fst x = true /\ e = IT (terminal_ty tok err (snd x))) \/ (fst x = false /\ e = rt_get rt (snd x)).

Lemma first_term_inv : forall rt p e,
  first_term_ity tok err rt p = Some e ->
  exists x xs, bp_terms p = x :: xs /\ first_term_spec rt x e.
Proof.
  intros rt p e H. unfold first_term_ity in H. unfold first_term_spec.
  destruct (bp_terms p) as [|[b c] xs]; [discriminate|].
  destruct b; inversion H; subst; eexists; exists xs; (split; [reflexivity|]); simpl; auto.
Qed.

Lemma islice_IT : forall e t, islice o e = IT t -> exists t0, e = IT t0 /\ t = slice_of o t0.
Proof. intros [|t0|e] t H; simpl in H; inversion H. eauto. Qed.

Lemma islice_nonnil : forall e, islice o e <> INil.
Proof. intros [|t0|e]; simpl; discriminate. Qed.

Lemma first_term_sound : forall rt x t,
  rt_sound rt -> first_term_spec rt x (IT t) ->
  (fst x = true /\ t = terminal_ty tok err (snd x)) \/ (fst x = false /\ has_type (snd x) t).
Proof.
  intros rt x t Hs [[H1 H2]|[H1 H2]].
  - left. inversion H2. auto.
  - right. split; auto.
Qed.

Lemma reduce_plus_inv : forall f rt c rc pi t,
  nth_error rules c = Some rc -> is_plus (br_kind rc) ->
  reduce_type o tok err rules prods (S f) rt c pi = RT t -> t <> INil ->
  exists q rest p x xs e,
    br_prods rc = q :: pi :: rest /\ nth_error prods pi = Some p /\
    bp_terms p = x :: xs /\ t = islice o e /\ first_term_spec rt x e.
Proof.
  intros f rt c rc pi t Hn Hk H Ht. simpl in H. rewrite Hn in H.
  assert (H' : match br_prods rc with
               | _ :: p1 :: _ =>
                 if negb (pi =? p1) then RT INil else
                 match nth_error prods pi with
                 | None => RP PBadIndex
                 | Some p => match first_term_ity tok err rt p with
                             | None => RP PIdxTerms
                             | Some t => RT (islice o t)
                             end
                 end
               | _ => RP PIdxProds
               end = RT t).
  { destruct Hk as [K|[K|K]]; rewrite K in H; exact H. }
  clear H. destruct (br_prods rc) as [|q [|p1 rest]]; try discriminate.
  destruct (pi =? p1) eqn:E; simpl in H'.
  2:{ inversion H'. congruence. }
  apply Nat.eqb_eq in E. subst p1.
  destruct (nth_error prods pi) as [p|] eqn:Ep; [|discriminate].
  destruct (first_term_ity tok err rt p) as [e|] eqn:Ef; [|discriminate].
  inversion H'; subst. apply first_term_inv in Ef. destruct Ef as [x [xs [Hx Hsp]]].
  exists q, rest, p, x, xs, e. auto.
Qed.


Lemma list_nat_eqb_eq : forall a b, list_nat_eqb a b = true -> a = b.
Proof.
  induction a as [|x a IH]; destruct b as [|y b]; simpl; intros H; try discriminate; auto.
  apply andb_prop in H. destruct H as [H1 H2]. apply Nat.eqb_eq in H1. f_equal; auto.
Qed.

Lemma rkind_eqb_eq : forall a b, rkind_eqb a b = true -> a = b.
Proof. destruct a, b; simpl; intros; congruence. Qed.

Lemma wf_rule_in : forall i r,
  wf_input rules prods ms = true -> nth_error rules i = Some r ->
  br_prods r = prods_of prods i /\ br_kind r = rule_generated (br_name r).
Proof.
  intros i r Hwf Hn. unfold wf_input in Hwf.
  repeat (apply andb_prop in Hwf; destruct Hwf as [Hwf ?]).
  rewrite forallb_forall in H1. apply in_indexed in Hn. apply H1 in Hn.
  unfold wf_rule in Hn. simpl in Hn. apply andb_prop in Hn. destruct Hn as [Ha Hb].
  split; [apply list_nat_eqb_eq | apply rkind_eqb_eq]; auto.
Qed.

Lemma prods_of_nodup : forall i, NoDup (prods_of prods i).
Proof. intros. unfold prods_of. apply nodup_map_filter. apply indexed_nodup. Qed.

Lemma in_prods_of : forall i pi,
  In pi (prods_of prods i) <-> exists p, nth_error prods pi = Some p /\ bp_rule p = i.
Proof.
  intros i pi. unfold prods_of. rewrite in_map_iff. split.
  - intros [[k p] [Hk Hin]]. simpl in Hk. subst k. apply filter_In in Hin.
    destruct Hin as [Hin Hb]. simpl in Hb. apply Nat.eqb_eq in Hb.
    apply in_indexed in Hin. eauto.
  - intros [p [Hn Hr]]. exists (pi, p). split; auto. apply filter_In. split.
    + apply in_indexed; auto.
    + simpl. apply Nat.eqb_eq; auto.
Qed.

Lemma wf_prods_distinct : forall i r q p1 rest,
  wf_input rules prods ms = true -> nth_error rules i = Some r ->
  br_prods r = q :: p1 :: rest -> p1 <> q.
Proof.
  intros i r q p1 rest Hwf Hn Hp. destruct (wf_rule_in i r Hwf Hn) as [Hp' _].
  pose proof (prods_of_nodup i) as Hnd. rewrite <- Hp', Hp in Hnd.
  inversion Hnd; subst. intros ->. apply H1. simpl; auto.
Qed.

Lemma reduce_type_sound : forall rt ri pi t,
  wf_input rules prods ms = true -> rt_sound rt ->
  reduce_type o tok err rules prods reduce_fuel rt ri pi = RT (IT t) -> has_type ri t.
Proof.
  intros rt ri pi t Hwf Hs H. unfold reduce_fuel in H.
  destruct (nth_error rules ri) as [r|] eqn:Hn.
  2:{ simpl in H. rewrite Hn in H. discriminate. }
  assert (Hplus : is_plus (br_kind r) -> has_type ri t).
  { intros Hk. destruct (reduce_plus_inv _ _ _ _ _ _ Hn Hk H) as
        [q [rest [p [x [xs [e [Hp [Hnp [Hx [He Hsp]]]]]]]]]]; [discriminate|].
    symmetry in He. apply islice_IT in He. destruct He as [t0 [-> ->]].
    eapply HT_plus; eauto. eapply first_term_sound; eauto. }
  assert (Hstar : is_star (br_kind r) -> has_type ri t).
  { intros Hk. change 2 with (S 1) in H. remember 1 as f1 eqn:Hf1.
    simpl in H. rewrite Hn in H.
    assert (H' : match br_prods r with
        | [] => RP PIdxProds
        | p0 :: _ =>
          if negb (pi =? p0) then RT INil else
          match nth_error prods pi with
          | None => RP PBadIndex
          | Some p =>
            match bp_terms p with
            | [] => RP PIdxTerms
            | (true, _) :: _ => RP PNotRule
            | (false, c) :: _ =>
              match nth_error rules c with
              | None => RP PBadIndex
              | Some rc =>
                match br_prods rc with
                | _ :: p1 :: _ =>
                  match reduce_type o tok err rules prods f1 rt c p1 with
                  | RP s => RP s
                  | RT INil => RP PAssertNil
                  | RT t => RT t
                  end
                | _ => RP PIdxProds
                end
              end
            end
          end
        end = RT (IT t)).
    { destruct Hk as [K|K]; rewrite K in H; exact H. }
    clear H. destruct (br_prods r) as [|p0 rest] eqn:Hp; [discriminate|].
    destruct (pi =? p0) eqn:E; simpl in H'; [|discriminate].
    apply Nat.eqb_eq in E. subst p0.
    destruct (nth_error prods pi) as [p|] eqn:Hnp; [|discriminate].
    destruct (bp_terms p) as [|[[|] c] xs] eqn:Hx; try discriminate.
    destruct (nth_error rules c) as [rc|] eqn:Hnc; [|discriminate].
    destruct (br_prods rc) as [|q [|p1 rest']] eqn:Hpc; try discriminate.
    destruct (reduce_type o tok err rules prods f1 rt c p1) as [s|t'] eqn:Hin; [discriminate|].
    assert (Ht' : t' = IT t) by (destruct t'; congruence). subst t'. clear H'.
    subst f1.
    assert (Hkc : is_plus (br_kind rc)).
    { pose proof (wf_prods_distinct c rc q p1 rest' Hwf Hnc Hpc) as Hne.
      simpl in Hin. rewrite Hnc in Hin. unfold is_plus.
      destruct (br_kind rc); auto; try discriminate;
        rewrite Hpc in Hin; apply Nat.eqb_neq in Hne; rewrite Hne in Hin;
        simpl in Hin; discriminate. }
    destruct (reduce_plus_inv _ _ _ _ _ _ Hnc Hkc Hin) as
        [q' [rest'' [pc [x [xs' [e [Hp' [Hnp' [Hx' [He Hsp]]]]]]]]]]; [discriminate|].
    symmetry in He. apply islice_IT in He. destruct He as [t0 [-> ->]].
    eapply HT_star; eauto. eapply first_term_sound; eauto. }
  destruct (br_kind r) eqn:K;
    try (apply Hplus; unfold is_plus; auto; fail);
    try (apply Hstar; unfold is_star; auto; fail).
  - simpl in H. rewrite Hn, K in H. discriminate.
  - simpl in H. rewrite Hn, K in H. discriminate.
  - (* ZeroOrOne *)
    simpl in H. rewrite Hn, K in H.
    destruct (br_prods r) as [|p0 rest] eqn:Hp; [discriminate|].
    destruct (pi =? p0) eqn:E; simpl in H; [|discriminate].
    apply Nat.eqb_eq in E. subst p0.
    destruct (nth_error prods pi) as [p|] eqn:Hnp; [|discriminate].
    destruct (first_term_ity tok err rt p) as [e|] eqn:Ef; [|discriminate].
    inversion H; subst. apply first_term_inv in Ef. destruct Ef as [x [xs [Hx Hsp]]].
    eapply HT_opt; eauto. eapply first_term_sound; eauto.
Qed.


(* one step of `pass` *)
Lemma pass_cons : forall ip rest rt ch,
  pass o tok err rules prods (ip :: rest) rt ch =
  match reduce_type o tok err rules prods reduce_fuel rt (bp_rule (snd ip)) (fst ip) with
  | RP s => PPanic s
  | RT INil => pass o tok err rules prods rest rt ch
  | RT t =>
    match rt_get rt (bp_rule (snd ip)) with
    | INil => pass o tok err rules prods rest ((bp_rule (snd ip), t) :: rt) true
    | ex => if ity_identical o ex t then pass o tok err rules prods rest rt ch
            else PPanic PAssertIdentical
    end
  end.
Proof. reflexivity. Qed.

(* a property of the type table that every step of the fixed point keeps *)
Lemma pass_invariant : forall (P : rtypes -> Prop),
  (forall rt k t pi, P rt -> rt_get rt k = INil -> t <> INil ->
     reduce_type o tok err rules prods reduce_fuel rt k pi = RT t -> P ((k, t) :: rt)) ->
  forall ps rt ch rt' ch',
    P rt -> pass o tok err rules prods ps rt ch = PDone rt' ch' -> P rt'.
Proof.
  intros P Hstep. induction ps as [|ip rest IH]; intros rt ch rt' ch' HP H.
  - simpl in H. inversion H; subst; auto.
  - rewrite pass_cons in H.
    destruct (reduce_type o tok err rules prods reduce_fuel rt (bp_rule (snd ip)) (fst ip))
      as [s|t] eqn:Er; [discriminate|].
    destruct t as [|t0|e].
    + eapply IH; eauto.
    + destruct (rt_get rt (bp_rule (snd ip))) eqn:Eg.
      * eapply IH; [|exact H]. eapply Hstep; eauto. discriminate.
      * destruct (ity_identical o (IT t) (IT t0)); [|discriminate]. eapply IH; eauto.
      * destruct (ity_identical o (ISl i) (IT t0)); [|discriminate]. eapply IH; eauto.
    + destruct (rt_get rt (bp_rule (snd ip))) eqn:Eg.
      * eapply IH; [|exact H]. eapply Hstep; eauto. discriminate.
      * destruct (ity_identical o (IT t) (ISl e)); [|discriminate]. eapply IH; eauto.
      * destruct (ity_identical o (ISl i) (ISl e)); [|discriminate]. eapply IH; eauto.
Qed.

Lemma derive_invariant : forall (P : rtypes -> Prop),
  (forall rt k t pi, P rt -> rt_get rt k = INil -> t <> INil ->
     reduce_type o tok err rules prods reduce_fuel rt k pi = RT t -> P ((k, t) :: rt)) ->
  forall fuel rt rt', P rt -> derive o tok err rules prods fuel rt = DvOk rt' -> P rt'.
Proof.
  intros P Hstep. induction fuel as [|f IH]; intros rt rt' HP H; simpl in H; [discriminate|].
  destruct (pass o tok err rules prods (indexed prods) rt false) as [s|rt1 ch] eqn:Ep; [discriminate|].
  assert (P rt1) by (eapply pass_invariant; eauto).
  destruct ch.
  - eapply IH; eauto.
  - inversion H; subst; auto.
Qed.

Lemma derive_sound : forall fuel rt rt',
  wf_input rules prods ms = true -> rt_sound rt ->
  derive o tok err rules prods fuel rt = DvOk rt' -> rt_sound rt'.
Proof.
  intros fuel rt rt' Hwf. apply derive_invariant.
  intros rt0 k t pi Hs Hnil Ht Hr i t1 Hg. simpl in Hg.
  destruct (k =? i) eqn:E.
  - apply Nat.eqb_eq in E. subst. eapply reduce_type_sound; eauto.
  - apply Hs; auto.
Qed.

(* existing entries are never changed *)
Lemma derive_mono : forall fuel rt rt' i,
  derive o tok err rules prods fuel rt = DvOk rt' ->
  rt_get rt i <> INil -> rt_get rt' i = rt_get rt i.
Proof.
  intros fuel rt rt' i H Hi.
  assert (Hinv : rt_get rt' i = rt_get rt i /\ True); [|tauto].
  revert H. apply (derive_invariant (fun r => rt_get r i = rt_get rt i /\ True)); auto.
  intros rt0 k t pi [Hs _] Hnil Ht Hr. split; auto. simpl.
  destruct (k =? i) eqn:E; auto.
  apply Nat.eqb_eq in E. subst. congruence.
Qed.

(* phase 1 *)
Lemma phase1_types_in : forall i x,
  In (i, x) (phase1_types o rules acts) ->
  exists r f others,
    group acts r = f :: others /\ find_rule rules r = Some i /\ x = IT (ret f).
Proof.
  intros i x H. unfold phase1_types in H. apply in_flat_map in H.
  destruct H as [r [_ H]]. unfold phase1_group in H.
  destruct (group acts r) as [|f others] eqn:Eg; [contradiction|].
  destruct (find_rule rules r) as [j|] eqn:Ef; simpl in H; [|contradiction].
  destruct H as [H|[]]. inversion H; subst. eauto 6.
Qed.

Lemma phase1_types_sound : rt_sound (phase1_types o rules acts).
Proof.
  intros i t H. apply rt_get_in in H; [|discriminate].
  apply phase1_types_in in H. destruct H as [r [f [others [Hg [Hf Hx]]]]].
  inversion Hx; subst. apply find_rule_some in Hf. destruct Hf as [rl [Hn Hname]].
  subst r. eapply HT_meth; eauto.
Qed.

Lemma rt_final_sound : forall rt,
  wf_input rules prods ms = true -> rt_final rt -> rt_sound rt.
Proof.
  intros rt Hwf [_ [_ [Hd _]]]. eapply derive_sound; eauto. apply phase1_types_sound.
Qed.

(* the specification's view of a computed type table *)
Definition typing (rtl : list (nat * ty)) : Prop :=
  forall i t, In (i, t) rtl -> has_type i t.

Lemma rule_types_typing : forall rt,
  rt_sound rt -> typing (rule_types_of rules rt).
Proof. intros rt Hs i t H. apply rule_types_in in H. apply Hs. tauto. Qed.


(* ------------------------------------------------------------------ *)
(* phase 4 *)

Lemma in_matches : forall rt p m,
  In m (matches o tok err rules rt acts p) <->
  In m ms /\ rule_of m = Some (name_of rules (bp_rule p)) /\ is_match o tok err rt p m = true.
Proof.
  intros rt p m. unfold matches. rewrite filter_In, in_group_iff. tauto.
Qed.

Lemma matches_nodup_ids : forall rt p,
  NoDup (map m_id ms) -> NoDup (map m_id (matches o tok err rules rt acts p)).
Proof.
  intros rt p H. unfold matches, group, actions.
  repeat apply nodup_map_filter. exact H.
Qed.

Lemma matches_single : forall rt pi p,
  phase4_errs o tok err rules prods rt acts = [] ->
  In (pi, p) (user_prods rules prods) ->
  exists m, matches o tok err rules rt acts p = [m].
Proof.
  intros rt pi p H Hin. unfold phase4_errs in H.
  pose proof (flat_map_nil _ _ _ _ H _ Hin) as Hx. simpl in Hx.
  destruct (matches o tok err rules rt acts p) as [|m [|m' l]]; try discriminate. eauto.
Qed.

Lemma in_binding : forall rt pi mid,
  In (pi, mid) (phase4_binding o tok err rules prods rt acts) <->
  exists p m, In (pi, p) (user_prods rules prods) /\
              matches o tok err rules rt acts p = [m] /\ mid = m_id m.
Proof.
  intros rt pi mid. unfold phase4_binding. rewrite in_flat_map. split.
  - intros [[pi' p] [Hin H]]. simpl in H.
    destruct (matches o tok err rules rt acts p) as [|m [|m' l]] eqn:E; try contradiction.
    destruct H as [H|[]]. inversion H; subst. exists p, m. auto.
  - intros [p [m [Hin [E ->]]]]. exists (pi, p). split; auto. simpl. rewrite E. simpl. auto.
Qed.

Lemma binding_nodup : forall rt,
  NoDup (map fst (phase4_binding o tok err rules prods rt acts)).
Proof.
  intros rt. unfold phase4_binding. apply nodup_flat_map_fst.
  - unfold user_prods. apply nodup_map_filter. apply indexed_nodup.
  - intros [pi p] _. simpl.
    destruct (matches o tok err rules rt acts p) as [|m [|m' l]]; eauto.
Qed.

(* B2 *)
Theorem binding_unique : forall b rtl,
  assign_actions o tok err rules prods ms = BOk b rtl ->
  typing rtl /\
  NoDup (map fst b) /\
  (forall pi mid, In (pi, mid) b ->
     exists p, nth_error prods pi = Some p /\ kind_of rules (bp_rule p) = NotGenerated) /\
  (forall pi p, nth_error prods pi = Some p -> kind_of rules (bp_rule p) = NotGenerated ->
     exists m, In m ms /\ In (pi, m_id m) b /\
       (forall mid, In (pi, mid) b -> mid = m_id m) /\
       rule_of m = Some (name_of rules (bp_rule p)) /\
       List.length (m_results m) = 1 /\
       List.length (m_params m) = List.length (bp_terms p) /\
       accepts rtl m p).
Proof.
  intros b rtl H. apply assign_ok_inv in H.
  destruct H as [Hwf [rt [Hfin [Hpan [Herr [Hun [Hb Hrtl]]]]]]]. subst b rtl.
  split; [apply rule_types_typing; apply rt_final_sound; auto|].
  split; [apply binding_nodup|]. split.
  - intros pi mid Hin. apply in_binding in Hin. destruct Hin as [p [m [Hin _]]].
    exists p. apply in_user_prods; auto.
  - intros pi p Hn Hk.
    assert (Hin : In (pi, p) (user_prods rules prods)) by (apply in_user_prods; auto).
    destruct (matches_single rt pi p Herr Hin) as [m Hm].
    assert (Hmm : In m (matches o tok err rules rt acts p)) by (rewrite Hm; simpl; auto).
    apply in_matches in Hmm. destruct Hmm as [Hms [Hr Hmatch]].
    assert (Hbm : In (pi, m_id m) (phase4_binding o tok err rules prods rt acts)).
    { apply in_binding. exists p, m. auto. }
    assert (Hacc : accepts (rule_types_of rules rt) m p).
    { apply is_match_iff; auto. eapply nth_error_In; eauto. }
    exists m. repeat split; auto.
    + intros mid Hmid. eapply nodup_fst_functional; eauto. apply binding_nodup.
    + destruct Hfin as [H0 _]. unfold phase0_errs in H0. apply map_eq_nil in H0.
      destruct (List.length (m_results m) =? 1) eqn:El; [apply Nat.eqb_eq; auto|].
      exfalso. assert (Hf : In m (filter bad_result_count acts)).
      { apply filter_In. split.
        - apply in_actions. split; auto. unfold is_action. rewrite Hr. auto.
        - unfold bad_result_count. rewrite El. auto. }
      rewrite H0 in Hf. contradiction.
    + apply accepts_length in Hacc. auto.
Qed.


(* ------------------------------------------------------------------ *)
(* B3: every diagnostic names a method / rule / production that has the
   stated defect *)

Definition culprit_ok (d : bdiag) : Prop :=
  match d with
  | DResultCount mid =>
    exists m, In m ms /\ m_id m = mid /\ is_action m = true /\
              List.length (m_results m) <> 1
  | DReturnConflict mid =>
    (* m comes after f, the first method of the same rule name, and its
       result type is not identical to f's *)
    exists m f r others, In m ms /\ m_id m = mid /\
      group acts r = f :: others /\ In m others /\
      identical o (ret m) (ret f) = false
  | DNoSuchRule mid =>
    exists m r, In m ms /\ m_id m = mid /\ rule_of m = Some r /\
      (forall rl, In rl rules -> br_name rl <> r)
  | DRuleMissingMethod i =>
    (* a rule of the grammar, not S'; if it is a user rule, no method is
       named after it (for a generated rule: no type could be derived) *)
    exists rl, nth_error rules i = Some rl /\ br_kind rl <> SPrime /\
      (br_kind rl = NotGenerated -> forall m, In m ms -> rule_of m <> Some (br_name rl))
  | DNoMatch pi =>
    exists p rtl, nth_error prods pi = Some p /\
      kind_of rules (bp_rule p) = NotGenerated /\ typing rtl /\
      (forall m, In m ms -> rule_of m = Some (name_of rules (bp_rule p)) ->
                 ~ accepts rtl m p)
  | DMultipleMatch pi =>
    exists p rtl m1 m2, nth_error prods pi = Some p /\
      kind_of rules (bp_rule p) = NotGenerated /\ typing rtl /\
      In m1 ms /\ In m2 ms /\ m_id m1 <> m_id m2 /\
      rule_of m1 = Some (name_of rules (bp_rule p)) /\
      rule_of m2 = Some (name_of rules (bp_rule p)) /\
      accepts rtl m1 p /\ accepts rtl m2 p
  | DUnassigned mid =>
    (* an action method that no user production is bound to, although every
       user production has exactly one acceptable method *)
    exists m rtl, In m ms /\ m_id m = mid /\ is_action m = true /\ typing rtl /\
      (forall pi p, nth_error prods pi = Some p ->
         kind_of rules (bp_rule p) = NotGenerated ->
         ~ (rule_of m = Some (name_of rules (bp_rule p)) /\ accepts rtl m p))
  end.

Lemma phase0_culprit : forall d, In d (phase0_errs ms) -> culprit_ok d.
Proof.
  intros d H. unfold phase0_errs in H. apply in_map_iff in H.
  destruct H as [m [<- Hin]]. apply filter_In in Hin. destruct Hin as [Ha Hb].
  apply in_actions in Ha. destruct Ha as [Hms Hact]. simpl. exists m.
  repeat split; auto. unfold bad_result_count in Hb. apply negb_true_iff in Hb.
  apply Nat.eqb_neq; auto.
Qed.

Lemma phase1_culprit : forall d, In d (phase1_errs o rules acts) -> culprit_ok d.
Proof.
  intros d H. unfold phase1_errs in H. apply in_flat_map in H.
  destruct H as [r [_ H]]. unfold phase1_group in H.
  destruct (group acts r) as [|f others] eqn:Eg; [contradiction|].
  assert (Hconf : In d (map (fun m => DReturnConflict (m_id m))
             (filter (fun m => negb (identical o (ret m) (ret f))) others)) -> culprit_ok d).
  { intros Hd. apply in_map_iff in Hd. destruct Hd as [m [<- Hin]].
    apply filter_In in Hin. destruct Hin as [Hin Hb]. apply negb_true_iff in Hb.
    simpl. exists m, f, r, others. repeat split; auto.
    assert (Hg : In m (group acts r)) by (rewrite Eg; simpl; auto).
    apply in_group_iff in Hg. tauto. }
  destruct (find_rule rules r) as [j|] eqn:Ef; simpl in H; auto.
  apply in_app_or in H. destruct H as [H|[<-|[]]]; auto.
  simpl. assert (Hg : In f (group acts r)) by (rewrite Eg; simpl; auto).
  apply in_group_iff in Hg. destruct Hg as [Hms Hr].
  exists f, r. repeat split; auto. eapply find_rule_from_none; eauto.
Qed.

Lemma phase1_ok_rule_typed : forall m rl i,
  wf_input rules prods ms = true ->
  phase1_errs o rules acts = [] ->
  In m ms -> nth_error rules i = Some rl -> rule_of m = Some (br_name rl) ->
  rt_get (phase1_types o rules acts) i <> INil.
Proof.
  intros m rl i Hwf H1 Hms Hn Hr.
  assert (Hname : In (br_name rl) (group_names acts)) by (apply in_group_names; eauto).
  assert (Hg : In m (group acts (br_name rl))) by (apply in_group_iff; auto).
  destruct (group acts (br_name rl)) as [|f others] eqn:Eg; [contradiction|].
  pose proof (flat_map_nil _ _ _ _ H1 _ Hname) as Hp. simpl in Hp.
  unfold phase1_group in Hp. rewrite Eg in Hp.
  destruct (find_rule rules (br_name rl)) as [j|] eqn:Ef; simpl in Hp.
  2:{ apply app_eq_nil in Hp. destruct Hp; discriminate. }
  pose proof Ef as Ef'. apply find_rule_some in Ef'. destruct Ef' as [r' [Hn' Hname']].
  assert (j = i) by (eapply nodup_names_index; eauto; apply wf_names; auto). subst j.
  apply (rt_get_nonnil _ i (IT (ret f))).
  - intros [k x] Hin. apply phase1_types_in in Hin.
    destruct Hin as [? [? [? [_ [_ ->]]]]]. simpl. discriminate.
  - unfold phase1_types. apply in_flat_map. exists (br_name rl). split; auto.
    unfold phase1_group. rewrite Eg, Ef. simpl. auto.
Qed.

Lemma missing_culprit : forall rt d,
  wf_input rules prods ms = true ->
  phase1_errs o rules acts = [] ->
  derive o tok err rules prods (derive_fuel rules) (phase1_types o rules acts) = DvOk rt ->
  In d (missing_rules rules rt) -> culprit_ok d.
Proof.
  intros rt d Hwf H1 Hd H. unfold missing_rules in H. apply in_flat_map in H.
  destruct H as [[i rl] [Hin H]]. simpl in H. apply in_indexed in Hin.
  destruct (is_sprime (br_kind rl)) eqn:Es; [contradiction|].
  destruct (ity_is_nil (rt_get rt i)) eqn:En; [|contradiction].
  destruct H as [<-|[]]. simpl. exists rl. split; auto. split.
  - intros K. rewrite K in Es. discriminate.
  - intros _ m Hms Hr. apply ity_is_nil_true in En.
    assert (Hnn : rt_get (phase1_types o rules acts) i <> INil)
      by (eapply phase1_ok_rule_typed; eauto).
    rewrite <- (derive_mono _ _ _ _ Hd Hnn) in Hnn. contradiction.
Qed.

Lemma phase4_culprit : forall rt d,
  wf_input rules prods ms = true -> rt_final rt ->
  In d (phase4_errs o tok err rules prods rt acts) -> culprit_ok d.
Proof.
  intros rt d Hwf Hfin H. unfold phase4_errs in H. apply in_flat_map in H.
  destruct H as [[pi p] [Hin H]]. simpl in H.
  pose proof Hin as Hup. apply in_user_prods in Hup. destruct Hup as [Hn Hk].
  assert (Hp : In p prods) by (eapply nth_error_In; eauto).
  assert (Hty : typing (rule_types_of rules rt))
    by (apply rule_types_typing; apply rt_final_sound; auto).
  destruct (matches o tok err rules rt acts p) as [|m1 [|m2 l]] eqn:Em.
  - destruct H as [<-|[]]. simpl. exists p, (rule_types_of rules rt).
    repeat split; auto. intros m Hms Hr Hacc.
    assert (In m (matches o tok err rules rt acts p)).
    { apply in_matches. repeat split; auto. apply is_match_iff; auto. }
    rewrite Em in H. contradiction.
  - contradiction.
  - destruct H as [<-|[]]. simpl.
    assert (H1 : In m1 (matches o tok err rules rt acts p)) by (rewrite Em; simpl; auto).
    assert (H2 : In m2 (matches o tok err rules rt acts p)) by (rewrite Em; simpl; auto).
    apply in_matches in H1. apply in_matches in H2.
    destruct H1 as [Hm1 [Hr1 Hx1]]. destruct H2 as [Hm2 [Hr2 Hx2]].
    pose proof (matches_nodup_ids rt p (wf_ids Hwf)) as Hnd. rewrite Em in Hnd.
    simpl in Hnd. inversion Hnd; subst.
    exists p, (rule_types_of rules rt), m1, m2. repeat split; auto.
    + intros E. apply H1. simpl. auto.
    + apply is_match_iff; auto.
    + apply is_match_iff; auto.
Qed.

Lemma unassigned_culprit : forall rt d,
  wf_input rules prods ms = true -> rt_final rt ->
  phase4_errs o tok err rules prods rt acts = [] ->
  In d (unassigned acts (phase4_binding o tok err rules prods rt acts)) -> culprit_ok d.
Proof.
  intros rt d Hwf Hfin Herr H. unfold unassigned in H. apply in_map_iff in H.
  destruct H as [m [<- Hin]]. apply filter_In in Hin. destruct Hin as [Ha Hb].
  apply in_actions in Ha. destruct Ha as [Hms Hact]. apply negb_true_iff in Hb.
  simpl. exists m, (rule_types_of rules rt). repeat split; auto.
  - apply rule_types_typing; apply rt_final_sound; auto.
  - intros pi p Hn Hk [Hr Hacc].
    assert (Hin : In (pi, p) (user_prods rules prods)) by (apply in_user_prods; auto).
    destruct (matches_single rt pi p Herr Hin) as [m' Hm'].
    assert (Hmm : In m (matches o tok err rules rt acts p)).
    { apply in_matches. repeat split; auto. apply is_match_iff; auto.
      eapply nth_error_In; eauto. }
    rewrite Hm' in Hmm. destruct Hmm as [->|[]].
    assert (Hex : existsb (fun pm : nat * nat => snd pm =? m_id m)
                          (phase4_binding o tok err rules prods rt acts) = true).
    { apply existsb_exists. exists (pi, m_id m). split.
      - apply in_binding. exists p, m. auto.
      - simpl. apply Nat.eqb_refl. }
    congruence.
Qed.

Theorem diagnostic_names_culprit : forall ds,
  assign_actions o tok err rules prods ms = BErr ds ->
  ds <> [] /\ forall d, In d ds -> culprit_ok d.
Proof.
  intros ds H. apply assign_err_inv in H.
  destruct H as [Hwf [e [-> [Hne Hcase]]]]. split.
  - intros Hs. destruct e as [|d e]; [congruence|].
    assert (In d (sort_diags (d :: e))) by (apply in_sort_diags; simpl; auto).
    rewrite Hs in H. contradiction.
  - intros d Hd. apply (proj1 (in_sort_diags _ _)) in Hd.
    destruct Hcase as [->|[[H0 ->]|[H0 [H1 [rt [Hdv Hc]]]]]].
    + apply phase0_culprit; auto.
    + apply phase1_culprit; auto.
    + destruct Hc as [->|[[Hfin ->]|[Hfin [H4 ->]]]].
      * eapply missing_culprit; eauto.
      * eapply phase4_culprit; eauto.
      * eapply unassigned_culprit; eauto.
Qed.

End Proofs.

(* ------------------------------------------------------------------ *)
(* B4: the value flow of `_cast` *)

(* DZero is only meant for non-interface types (zero_of never builds another) *)
Definition wf_dyn (o : oracle) (v : dyn) : Prop :=
  match v with DZero t => is_interface o t = false | _ => True end.

Theorem cast_delivers_when_identical : forall o T t x,
  is_interface o T = false -> identical o t T = true ->
  cast o T (DVal t x) = DVal t x.
Proof. intros o T t x Hi Hid. unfold cast. simpl. rewrite Hi, Hid. reflexivity. Qed.

(* same, with the side condition moved to the oracle: identical types are
   both interfaces or both not, and a dynamic type is never an interface *)
Corollary cast_delivers_when_identical' : forall o T t x,
  (forall a b, identical o a b = true -> is_interface o a = is_interface o b) ->
  is_interface o t = false -> identical o t T = true ->
  cast o T (DVal t x) = DVal t x.
Proof.
  intros o T t x Hcompat Ht Hid. apply cast_delivers_when_identical; auto.
  rewrite <- (Hcompat _ _ Hid). auto.
Qed.

Theorem cast_interface_delivers : forall o T t x,
  is_interface o T = true -> implements o t T = true ->
  cast o T (DVal t x) = DVal t x.
Proof. intros o T t x Hi Himp. unfold cast. simpl. rewrite Hi, Himp. reflexivity. Qed.

(* the pinned tree's template: parameter i of method m *)
Corollary param_value_old_delivers : forall o m i t x,
  let T := nth i (m_params m) 0 in
  (is_interface o T = false /\ identical o t T = true) \/
  (is_interface o T = true /\ implements o t T = true) ->
  param_value_old o m i (DVal t x) = DVal t x.
Proof.
  intros o m i t x T [[H1 H2]|[H1 H2]]; unfold param_value_old; fold T.
  - apply cast_delivers_when_identical; auto.
  - apply cast_interface_delivers; auto.
Qed.

(* casting to the static type the value was produced at always gives the
   value back *)
Theorem cast_to_term_type_delivers : forall o S v,
  wf_dyn o v -> has_static_type o S v = true -> cast o S v = v.
Proof.
  intros o S v Hwf H. unfold has_static_type in H. unfold cast.
  destruct v as [|t x|t]; simpl in *.
  - unfold zero_of. rewrite H. reflexivity.
  - destruct (is_interface o S); rewrite H; reflexivity.
  - rewrite Hwf in *. destruct (is_interface o S); rewrite H; reflexivity.
Qed.

Corollary param_value_delivers : forall o S v,
  wf_dyn o v -> has_static_type o S v = true -> param_value o S v = v.
Proof. intros. unfold param_value. apply cast_to_term_type_delivers; auto. Qed.

Corollary cast_to_own_type_delivers : forall o S x,
  (forall a, identical o a a = true) -> is_interface o S = false ->
  param_value o S (DVal S x) = DVal S x.
Proof.
  intros o S x Hrefl Hi. unfold param_value.
  apply cast_delivers_when_identical; auto.
Qed.

(* ------------------------------------------------------------------ *)
(* the value flow of a successful binding (current template): the arguments
   of every action call are exactly the values produced for the terms *)

Lemma rule_types_nodup : forall rules rt, NoDup (map fst (rule_types_of rules rt)).
Proof.
  intros rules rt. unfold rule_types_of. apply nodup_flat_map_fst.
  - apply indexed_nodup.
  - intros [i r] _. simpl. destruct (ity_ty (rt_get rt i)); eauto.
Qed.

Lemma rtl_get_in : forall rtl i s,
  NoDup (map fst rtl) -> In (i, s) rtl -> rtl_get rtl i = Some s.
Proof.
  induction rtl as [|[j t] rtl IH]; simpl; intros i s Hnd Hin; [contradiction|].
  inversion Hnd; subst. destruct Hin as [Hin|Hin].
  - inversion Hin; subst. rewrite Nat.eqb_refl. reflexivity.
  - destruct (j =? i) eqn:E.
    + apply Nat.eqb_eq in E. subst j. exfalso. apply H1.
      apply in_map_iff. exists (i, s). auto.
    + apply IH; auto.
Qed.

Lemma term_go_type_has_ty : forall tok err rtl t s,
  NoDup (map fst rtl) -> term_has_ty tok err rtl t s ->
  term_go_type tok err rtl t = Some s.
Proof.
  intros tok err rtl [[|] i] s Hnd H; unfold term_has_ty, term_go_type in *; simpl in *.
  - congruence.
  - apply rtl_get_in; auto.
Qed.

(* v is a value an expression of the term's registered type can hold *)
Definition produced_for (o : oracle) (tok err : ty) (rtl : list (nat * ty))
           (t : bool * nat) (v : dyn) : Prop :=
  exists s, term_has_ty tok err rtl t s /\ wf_dyn o v /\ has_static_type o s v = true.

Lemma action_args_id : forall o tok err rtl terms vs,
  NoDup (map fst rtl) -> Forall2 (produced_for o tok err rtl) terms vs ->
  action_args o tok err rtl terms vs = vs.
Proof.
  intros o tok err rtl terms vs Hnd H.
  induction H as [|t v terms vs [s [Hs [Hw Hst]]] _ IH]; simpl; auto.
  rewrite (term_go_type_has_ty _ _ _ _ _ Hnd Hs).
  rewrite param_value_delivers by assumption. f_equal. exact IH.
Qed.

Theorem values_flow : forall o tok err rules prods ms b rtl,
  assign_actions o tok err rules prods ms = BOk b rtl ->
  forall pi p, nth_error prods pi = Some p -> kind_of rules (bp_rule p) = NotGenerated ->
  exists m, In m ms /\ In (pi, m_id m) b /\
    (* the call type-checks: each term's type is assignable to the parameter *)
    accepts o tok err rtl m p /\
    (* and whatever was produced for the terms is what the action receives *)
    forall vs, Forall2 (produced_for o tok err rtl) (bp_terms p) vs ->
      List.length vs = List.length (m_params m) /\
      action_args o tok err rtl (bp_terms p) vs = vs.
Proof.
  intros o tok err rules prods ms b rtl H pi p Hn Hk.
  destruct (binding_unique o tok err rules prods ms b rtl H) as [_ [_ [_ Hall]]].
  destruct (Hall pi p Hn Hk) as [m [Hms [Hb [_ [_ [_ [Hlen Hacc]]]]]]].
  exists m. split; auto. split; auto. split; auto. intros vs Hvs. split.
  - apply Forall2_len in Hvs. congruence.
  - apply assign_ok_inv in H. destruct H as [_ [rt [_ [_ [_ [_ [_ ->]]]]]]].
    apply action_args_id; auto. apply rule_types_nodup.
Qed.

(* ------------------------------------------------------------------ *)
(* B5: the pinned tree's template handed a zero value to the action (defect
   D6, fixed by commit 156a4e1; param_value_old is that template).
   Types: 0 = Expr, 1 = []Expr, 2 = `type Exprs []Expr`, 10 = Token,
   11 = error.  []Expr is assignable to Exprs (identical underlying types,
   one side not named) but not identical to it.
   Grammar: s = x+ ; x = A.   Methods: on_s(xs Exprs) Expr; on_x(a Token) Expr. *)

Definition ex_o : oracle := {|
  identical := Nat.eqb;
  assignable := fun v t => Nat.eqb v t || (Nat.eqb v 1 && Nat.eqb t 2) || (Nat.eqb v 2 && Nat.eqb t 1);
  slice_of := fun t => match t with 0 => 1 | _ => 100 + t end;
  is_interface := fun _ => false;
  implements := fun _ _ => false |}.

Definition ex_rules : list brule := [
  {| br_name := "S'"; br_kind := SPrime; br_prods := [0] |};
  {| br_name := "s"; br_kind := NotGenerated; br_prods := [1] |};
  {| br_name := "x"; br_kind := NotGenerated; br_prods := [2] |};
  {| br_name := "x+"; br_kind := OneOrMore; br_prods := [3; 4] |} ].

Definition ex_prods : list bprod := [
  {| bp_rule := 0; bp_terms := [(false, 1)] |};
  {| bp_rule := 1; bp_terms := [(false, 3)] |};
  {| bp_rule := 2; bp_terms := [(true, 2)] |};
  {| bp_rule := 3; bp_terms := [(false, 3); (false, 2)] |};
  {| bp_rule := 3; bp_terms := [(false, 2)] |} ].

Definition ex_on_s : meth := {| m_id := 0; m_name := "on_s"; m_params := [2]; m_results := [0] |}.
Definition ex_on_x : meth := {| m_id := 1; m_name := "on_x"; m_params := [10]; m_results := [0] |}.

Example cast_zero_refuted :
  (* lox accepts: production 1 (s = x+) is bound to on_s, the term x+ has type []Expr *)
  assign_actions ex_o 10 11 ex_rules ex_prods [ex_on_s; ex_on_x]
    = BOk [(1, 0); (2, 1)] [(1, 0); (2, 0); (3, 1)] /\
  (* because []Expr is assignable to the parameter type Exprs ... *)
  assignable ex_o 1 (nth 0 (m_params ex_on_s) 0) = true /\
  (* ... which is neither an interface nor identical to []Expr *)
  is_interface ex_o 2 = false /\ identical ex_o 1 2 = false /\
  (* so with the old template the action received the zero value *)
  (forall x, param_value_old ex_o ex_on_s 0 (DVal 1 x) = DZero 2) /\
  (* while the current template (cast to the term's own type) delivers it *)
  (forall x, param_value ex_o 1 (DVal 1 x) = DVal 1 x) /\
  (forall x, action_args ex_o 10 11 [(1, 0); (2, 0); (3, 1)] [(false, 3)] [DVal 1 x] = [DVal 1 x]).
Proof. repeat split; vm_compute; reflexivity. Qed.

(* `@error+` (defect D6c of the pinned tree, fixed by commit e7bf6de): the
   rule ERROR+ is registered as []<error type>, which is also what the
   one_or_more template builds.  A []Error parameter is accepted and receives
   the list; a []Token parameter is refused with a diagnostic.
   Types: 10 Token, 11 error, 110 []Token, 111 []error. *)
Definition ex2_o : oracle := {|
  identical := Nat.eqb; assignable := Nat.eqb; slice_of := fun t => 100 + t;
  is_interface := fun _ => false; implements := fun _ _ => false |}.

Definition ex2_rules : list brule := [
  {| br_name := "S'"; br_kind := SPrime; br_prods := [0] |};
  {| br_name := "s"; br_kind := NotGenerated; br_prods := [1] |};
  {| br_name := "ERROR+"; br_kind := OneOrMore; br_prods := [2; 3] |} ].

Definition ex2_prods : list bprod := [
  {| bp_rule := 0; bp_terms := [(false, 1)] |};
  {| bp_rule := 1; bp_terms := [(false, 2)] |};
  {| bp_rule := 2; bp_terms := [(false, 2); (true, 1)] |};
  {| bp_rule := 2; bp_terms := [(true, 1)] |} ].

Definition ex2_on_s (param : ty) : meth :=
  {| m_id := 0; m_name := "on_s"; m_params := [param]; m_results := [10] |}.

Example error_plus_fixed :
  assign_actions ex2_o 10 11 ex2_rules ex2_prods [ex2_on_s 111] = BOk [(1, 0)] [(1, 10); (2, 111)] /\
  assign_actions ex2_o 10 11 ex2_rules ex2_prods [ex2_on_s 110] = BErr [DNoMatch 1] /\
  registered_elem_type 10 11 [] (true, 1) = IT 11 /\
  built_elem_type 10 11 [] (true, 1) = IT 11 /\
  (forall x, action_args ex2_o 10 11 [(1, 10); (2, 111)] [(false, 2)]
                         [DVal (slice_of ex2_o 11) x] = [DVal 111 x]).
Proof. repeat split; vm_compute; reflexivity. Qed.

Print Assumptions binding_unique.
Print Assumptions diagnostic_names_culprit.
Print Assumptions cast_delivers_when_identical.
Print Assumptions cast_interface_delivers.
Print Assumptions cast_to_term_type_delivers.
Print Assumptions values_flow.
Print Assumptions cast_zero_refuted.
Print Assumptions error_plus_fixed.
