(* Executable model of how lox desugars the cardinality sugar of parser rules
   (internal/ast/parser_term.go: normalize / generate), plus the documented
   meaning of the sugar (docs/markdown/parser_reference.md) as a relation on
   token strings.  Definitions only; proofs are in NormalizeProofs.v.

   What lox does (one unit):
   - CreateNames numbers S' = rule 0 and the user rules 1..n in declaration order.
   - Normalize visits rules, productions and terms in order.  A sugared term asks
     for a helper rule BY NAME ("x?", "x*", "x*!", "x+", "x+!", "@list(x,s)",
     "@list(x,s)?", x and s the names of the child symbols).  If the name is
     already registered the existing rule is reused.  Otherwise the helper is
     appended to the unit's statements and gets the next rule number AT ONCE
     (CreateNames), and only then its own productions are normalized: the "x*"
     helper asks for "x+", "x*!" for "x+!", "@list(x,s)?" for "@list(x,s)".
     So "x*" is numbered before the "x+" it creates.
   - GenerateGrammar numbers productions in statement order: production 0 is
     S' -> start, then the user productions in declaration order, then the two
     productions of every helper, helpers in creation order.
   Observed with loxverif dump (440 random grammars and hand-written ones agree
   with normalize on every rule number, production number, right-hand side and
   reported kind).  Not modelled:
   - several .lox files: a helper is appended to the unit that first asks for it,
     so its productions are numbered after that unit's user productions and
     before the next unit's, while its rule number is still the next free one.
   - "ERROR" is a reserved name, so "@error*" and a token's "X*" never share a
     helper name; @list rejects @error arguments (wf_sgrammarb does too).
   The reference manual writes x* as  x* = x+? ; x+? = x+ | @empty  (a third
   helper); lox builds  x* = x+ | @empty  directly.  Same language. *)
From Coq Require Import List Arith Bool.
From Lox Require Import Parse.Grammar.
Import ListNotations.

(* ---------- (a) the sugared grammar ---------- *)

Inductive scard := KOpt | KStar | KStarF | KPlus.

Inductive sterm :=
| STok (t : nat)                          (* terminal number; tokens start at 2 *)
| SRule (r : nat)                         (* nonterminal number: user rule k (0-based) is k+1 *)
| SErr                                    (* @error = terminal 1 *)
| SCard (k : scard) (c : sterm)           (* c? c* c*! c+ ; c is STok/SRule/SErr *)
| SList (elem sep : sterm) (opt : bool).  (* @list(elem,sep) / @list(elem,sep)? ; STok/SRule *)

Definition srule := list (list sterm).

Record sgrammar := {
  sg_rules : list srule;   (* user rules in declaration order; rule i is nonterminal i+1 *)
  sg_start : nat           (* nonterminal number of the @start rule *)
}.

(* ---------- helper rules ---------- *)

Inductive helper_kind := HOpt | HStar | HStarF | HPlus | HPlusF | HList | HListOpt.

(* The code of the rule kind lox reports for the helper (codegen.RuleGenerated on
   its name): zero_or_more 2, zero_or_more_f 3, one_or_more 4, one_or_more_f 5,
   zero_or_one 6, list 7.  "@list(x,s)?" ends in '?' and is reported zero_or_one. *)
Definition hk_code (k : helper_kind) : nat :=
  match k with
  | HStar => 2 | HStarF => 3 | HPlus => 4 | HPlusF => 5
  | HOpt => 6 | HListOpt => 6 | HList => 7
  end.

(* A helper's identity: lox's name of it. *)
Definition hkey := (helper_kind * sym * option sym)%type.

Definition hk_eqb (a b : helper_kind) : bool :=
  match a, b with
  | HOpt, HOpt | HStar, HStar | HStarF, HStarF | HPlus, HPlus
  | HPlusF, HPlusF | HList, HList | HListOpt, HListOpt => true
  | _, _ => false
  end.

Definition osym_eqb (a b : option sym) : bool :=
  match a, b with
  | Some x, Some y => sym_eqb x y
  | None, None => true
  | _, _ => false
  end.

Definition hkey_eqb (a b : hkey) : bool :=
  match a, b with
  | (k1, c1, s1), (k2, c2, s2) => hk_eqb k1 k2 && sym_eqb c1 c2 && osym_eqb s1 s2
  end.

(* the symbol of a simple term *)
Definition sym_of (x : sterm) : sym :=
  match x with
  | STok t => T t
  | SRule r => NT r
  | SErr => T error_t
  | _ => T error_t     (* not simple: excluded by wf_sgrammarb *)
  end.

Definition card_kind (k : scard) : helper_kind :=
  match k with KOpt => HOpt | KStar => HStar | KStarF => HStarF | KPlus => HPlus end.

(* the helper a term asks for *)
Definition key_of (x : sterm) : option hkey :=
  match x with
  | SCard k c => Some (card_kind k, sym_of c, None)
  | SList e s false => Some (HList, sym_of e, Some (sym_of s))
  | SList e s true => Some (HListOpt, sym_of e, Some (sym_of s))
  | _ => None
  end.

(* the helper a new helper asks for while its own productions are normalized *)
Definition sub_key (k : hkey) : option hkey :=
  match k with
  | (HStar, c, _) => Some (HPlus, c, None)
  | (HStarF, c, _) => Some (HPlusF, c, None)
  | (HListOpt, c, s) => Some (HList, c, s)
  | _ => None
  end.

Fixpoint find_idx (k : hkey) (tbl : list hkey) : option nat :=
  match tbl with
  | [] => None
  | k' :: r => if hkey_eqb k k' then Some 0 else option_map S (find_idx k r)
  end.

Definition mem_key (k : hkey) (tbl : list hkey) : bool :=
  match find_idx k tbl with Some _ => true | None => false end.

Definition add_key (tbl : list hkey) (k : hkey) : list hkey :=
  if mem_key k tbl then tbl else tbl ++ [k].

(* generate(name, ...): look the name up; a new helper is appended first, then
   what its own productions ask for *)
Definition request (tbl : list hkey) (k : hkey) : list hkey :=
  if mem_key k tbl then tbl
  else
    let tbl' := tbl ++ [k] in
    match sub_key k with
    | Some k' => add_key tbl' k'
    | None => tbl'
    end.

Definition request_term (tbl : list hkey) (x : sterm) : list hkey :=
  match key_of x with
  | Some k => request tbl k
  | None => tbl
  end.

(* all terms in the order the Normalize pass visits them *)
Definition all_terms (g : sgrammar) : list sterm := concat (concat (sg_rules g)).

(* the helpers in creation order: helper j is nonterminal (number of user rules)+1+j *)
Definition collect (g : sgrammar) : list hkey := fold_left request_term (all_terms g) [].

(* ---------- the plain grammar ---------- *)

Definition helper_nt (n : nat) (tbl : list hkey) (k : hkey) : sym :=
  match find_idx k tbl with
  | Some j => NT (n + 1 + j)
  | None => NT 0     (* never for the table of collect *)
  end.

(* the symbol a term has after normalization *)
Definition tsym (n : nat) (tbl : list hkey) (x : sterm) : sym :=
  match key_of x with
  | Some k => helper_nt n tbl k
  | None => sym_of x
  end.

Definition user_prods_of (n : nat) (tbl : list hkey) (i : nat) (r : srule) : list prod :=
  map (fun p => {| lhs := i + 1; rhs := map (tsym n tbl) p |}) r.

Fixpoint user_prods (n : nat) (tbl : list hkey) (i : nat) (rs : list srule) : list prod :=
  match rs with
  | [] => []
  | r :: rs' => user_prods_of n tbl i r ++ user_prods n tbl (S i) rs'
  end.

(* the two productions of helper number j (nonterminal h = n+1+j) *)
Definition helper_rhs1 (n : nat) (tbl : list hkey) (h : nat) (k : hkey) : list sym :=
  match k with
  | (HOpt, c, _) => [c]
  | (HStar, c, _) => [helper_nt n tbl (HPlus, c, None)]
  | (HStarF, c, _) => [helper_nt n tbl (HPlusF, c, None)]
  | (HPlus, c, _) => [NT h; c]
  | (HPlusF, c, _) => [NT h; c]
  | (HList, c, Some s) => [NT h; s; c]
  | (HList, c, None) => [NT h; c; c]      (* no such key *)
  | (HListOpt, c, s) => [helper_nt n tbl (HList, c, s)]
  end.

Definition helper_rhs2 (k : hkey) : list sym :=
  match k with
  | (HOpt, _, _) | (HStar, _, _) | (HStarF, _, _) | (HListOpt, _, _) => []
  | (HPlus, c, _) | (HPlusF, c, _) | (HList, c, _) => [c]
  end.

Fixpoint helper_prods (n : nat) (tbl : list hkey) (j : nat) (l : list hkey) : list prod :=
  match l with
  | [] => []
  | k :: l' =>
    {| lhs := n + 1 + j; rhs := helper_rhs1 n tbl (n + 1 + j) k |} ::
    {| lhs := n + 1 + j; rhs := helper_rhs2 k |} ::
    helper_prods n tbl (S j) l'
  end.

Definition build (g : sgrammar) (tbl : list hkey) : grammar :=
  let n := length (sg_rules g) in
  {| lhs := 0; rhs := [NT (sg_start g)] |} ::
  user_prods n tbl 0 (sg_rules g) ++ helper_prods n tbl 0 tbl.

Definition key_kind (k : hkey) : helper_kind := fst (fst k).

(* ---------- (b) normalize ---------- *)

Definition normalize (g : sgrammar) : grammar * list (nat * helper_kind) :=
  let tbl := collect g in
  let n := length (sg_rules g) in
  (build g tbl, combine (seq (n + 1) (length tbl)) (map key_kind tbl)).

(* ---------- well-formedness (what lox's Check pass accepts) ---------- *)

Definition simpleb (n : nat) (x : sterm) : bool :=
  match x with
  | STok _ => true
  | SRule r => (1 <=? r) && (r <=? n)
  | SErr => true
  | _ => false
  end.

(* "@list entry/separator param must be a simple token or rule": not @error *)
Definition list_argb (n : nat) (x : sterm) : bool :=
  match x with
  | SErr => false
  | _ => simpleb n x
  end.

Definition wf_termb (n : nat) (x : sterm) : bool :=
  match x with
  | SCard _ c => simpleb n c
  | SList e s _ => list_argb n e && list_argb n s
  | _ => simpleb n x
  end.

Definition wf_sgrammarb (g : sgrammar) : bool :=
  let n := length (sg_rules g) in
  (1 <=? sg_start g) && (sg_start g <=? n) &&
  forallb (fun r => forallb (fun p => forallb (wf_termb n) p) r) (sg_rules g).

Definition wf_sgrammar (g : sgrammar) : Prop := wf_sgrammarb g = true.

(* ---------- (c) the documented meaning ---------- *)

Section Meaning.
Variable g : sgrammar.

(* sderives x u : term x matches the token string u
   sprod p u    : the terms of production p match u, in order
   srep c n u   : u is n concatenated matches of c
   sreplist e s n u : u is  e (s e)^n *)
Inductive sderives : sterm -> list token -> Prop :=
| sd_tok t i : sderives (STok t) [(t, i)]
| sd_err i : sderives SErr [(error_t, i)]
| sd_rule r rl p u :
    nth_error (sg_rules g) r = Some rl -> In p rl -> sprod p u -> sderives (SRule (S r)) u
| sd_opt_none c : sderives (SCard KOpt c) []
| sd_opt_some c u : sderives c u -> sderives (SCard KOpt c) u
| sd_star c n u : srep c n u -> sderives (SCard KStar c) u
| sd_starf c n u : srep c n u -> sderives (SCard KStarF c) u
| sd_plus c n u : srep c (S n) u -> sderives (SCard KPlus c) u
| sd_list e s o n u : sreplist e s n u -> sderives (SList e s o) u
| sd_list_none e s : sderives (SList e s true) []
with sprod : list sterm -> list token -> Prop :=
| sp_nil : sprod [] []
| sp_cons x xs u v : sderives x u -> sprod xs v -> sprod (x :: xs) (u ++ v)
with srep : sterm -> nat -> list token -> Prop :=
| sr_zero c : srep c 0 []
| sr_more c n u v : srep c n u -> sderives c v -> srep c (S n) (u ++ v)
with sreplist : sterm -> sterm -> nat -> list token -> Prop :=
| sl_one e s u : sderives e u -> sreplist e s 0 u
| sl_more e s n u v w :
    sreplist e s n u -> sderives s v -> sderives e w -> sreplist e s (S n) (u ++ v ++ w).

Definition ssentence (w : list token) : Prop := sderives (SRule (sg_start g)) w.

End Meaning.

Scheme sderives_ind4 := Minimality for sderives Sort Prop
with sprod_ind4 := Minimality for sprod Sort Prop
with srep_ind4 := Minimality for srep Sort Prop
with sreplist_ind4 := Minimality for sreplist Sort Prop.
Combined Scheme sderives_mutind from sderives_ind4, sprod_ind4, srep_ind4, sreplist_ind4.

(* ---------- a flat rendering for the test harness ----------
   symbol: T t -> 2t, NT n -> 2n+1; a production is lhs :: symbols *)
Definition enc_sym (s : sym) : nat := match s with T t => 2 * t | NT n => 2 * n + 1 end.
Definition enc_prod (p : prod) : list nat := lhs p :: map enc_sym (rhs p).
Definition normalize_flat (g : sgrammar) : list (list nat) * list (nat * nat) :=
  let (gr, hs) := normalize g in
  (map enc_prod gr, map (fun x => (fst x, hk_code (snd x))) hs).
