(* Theorems about the reference LALR(1) construction (LALRRef.v):
     L1 closure_ref_closed / closure_ref_sound / closure_ref_iff,
     L2 goto_ref_kernel, L3 merge_preserves_core, L4 calculator examples. *)
From Coq Require Import List Arith Lia Bool.
From Lox Require Import Parse.Grammar Gen.FirstModel Gen.ResolveModel Gen.LALRRef.
Import ListNotations.

(* ------------------------------------------------------------------ *)
(* the sorted-list sets, as far as membership is concerned *)

Section SetFacts.
Context {A : Type} (cmp : A -> A -> comparison).
Hypothesis cmp_eq : forall a b, cmp a b = Eq <-> a = b.

Lemma cmp_refl a : cmp a a = Eq.
Proof. now apply cmp_eq. Qed.

Lemma ins_In x y l : In x (ins cmp y l) <-> x = y \/ In x l.
Proof.
  induction l as [|z l IH]; cbn [ins].
  - cbn. intuition.
  - destruct (cmp y z) eqn:Hc.
    + apply cmp_eq in Hc. subst z. cbn. intuition.
    + cbn. intuition.
    + cbn [In]. rewrite IH. intuition.
Qed.

Lemma mem_In x l : mem cmp x l = true <-> In x l.
Proof.
  induction l as [|z l IH]; cbn [mem].
  - split; [discriminate | intros []].
  - destruct (cmp x z) eqn:Hc.
    + apply cmp_eq in Hc. subst z. split; [intros _; now left | reflexivity].
    + rewrite IH. split; [now right | intros [H|H]; [subst; rewrite cmp_refl in Hc; discriminate | exact H]].
    + rewrite IH. split; [now right | intros [H|H]; [subst; rewrite cmp_refl in Hc; discriminate | exact H]].
Qed.

Lemma sort_set_In x l : In x (sort_set cmp l) <-> In x l.
Proof.
  induction l as [|y l IH]; cbn [sort_set fold_right]; [reflexivity|].
  fold (sort_set cmp l). rewrite ins_In, IH. cbn. intuition.
Qed.

Lemma union_In x l1 l2 : In x (union cmp l1 l2) <-> In x l1 \/ In x l2.
Proof.
  induction l1 as [|y l1 IH]; cbn [union fold_right].
  - cbn. intuition.
  - fold (union cmp l1 l2). rewrite ins_In, IH. cbn. intuition.
Qed.

Lemma list_eqb_eq l1 l2 : list_eqb cmp l1 l2 = true <-> l1 = l2.
Proof.
  revert l2. induction l1 as [|x l1 IH]; intros [|y l2]; cbn [list_eqb];
    try (split; [discriminate | discriminate]); [split; reflexivity|].
  destruct (cmp x y) eqn:Hc.
  - apply cmp_eq in Hc. subst y. rewrite IH. split; [intros ->; reflexivity | intros H; now inversion H].
  - split; [discriminate | intros H; inversion H; subst; rewrite cmp_refl in Hc; discriminate].
  - split; [discriminate | intros H; inversion H; subst; rewrite cmp_refl in Hc; discriminate].
Qed.
End SetFacts.

Lemma item_cmp_eq a b : item_cmp a b = Eq <-> a = b.
Proof.
  destruct a as [[p1 d1] l1], b as [[p2 d2] l2]. unfold item_cmp. split.
  - intros H. destruct (p1 ?= p2) eqn:Hp; try discriminate.
    destruct (d1 ?= d2) eqn:Hd; try discriminate.
    apply Nat.compare_eq_iff in Hp, Hd, H. now subst.
  - intros H. inversion H; subst. now rewrite !Nat.compare_refl.
Qed.

Lemma pair_cmp_eq a b : pair_cmp a b = Eq <-> a = b.
Proof.
  destruct a as [p1 d1], b as [p2 d2]. unfold pair_cmp. split.
  - intros H. destruct (p1 ?= p2) eqn:Hp; try discriminate.
    apply Nat.compare_eq_iff in Hp, H. now subst.
  - intros H. inversion H; subst. now rewrite !Nat.compare_refl.
Qed.

Lemma ins_item_In x y l : In x (ins_item y l) <-> x = y \/ In x l.
Proof. apply ins_In, item_cmp_eq. Qed.

Lemma imem_In x l : imem x l = true <-> In x l.
Proof. apply mem_In, item_cmp_eq. Qed.

Lemma sym_eqb_eq X Y : sym_eqb X Y = true <-> X = Y.
Proof.
  destruct X as [x|x], Y as [y|y]; cbn; try (split; congruence);
    rewrite Nat.eqb_eq; split; congruence.
Qed.

(* ------------------------------------------------------------------ *)
(* L1: closure *)

(* the textbook closure rule, w.r.t. a FIRST table *)
Inductive lr1_closure (tab : list entry) (g : grammar) (I : list item) : item -> Prop :=
| lc_base x : In x I -> lr1_closure tab g I x
| lc_step p d a pr B q prB x :
    lr1_closure tab g I (p, d, a) ->
    nth_error g p = Some pr ->
    nth_error (rhs pr) d = Some (NT B) ->          (* A -> alpha . B beta *)
    nth_error g q = Some prB -> lhs prB = B ->     (* B -> gamma          *)
    In x (first_seq_tab tab (skipn (S d) (rhs pr)) a) ->   (* x in FIRST(beta a) *)
    lr1_closure tab g I (q, 0, x).

Lemma prods_from_In g i B q :
  In q (prods_from g i B) <->
  exists pr, i <= q /\ nth_error g (q - i) = Some pr /\ lhs pr = B.
Proof.
  revert i. induction g as [|pr0 g IH]; intros i; cbn [prods_from].
  - split; [intros [] | intros (pr & _ & H & _); destruct (q - i); discriminate].
  - assert (Hrec : In q (prods_from g (S i) B) <->
                   exists pr, S i <= q /\ nth_error (pr0 :: g) (q - i) = Some pr /\ lhs pr = B).
    { rewrite IH. split; intros (pr & Hle & Hn & Hl); exists pr; (split; [exact Hle|]); split; auto.
      - replace (q - i) with (S (q - S i)) by lia. exact Hn.
      - replace (q - i) with (S (q - S i)) in Hn by lia. exact Hn. }
    destruct (lhs pr0 =? B) eqn:Hb.
    + apply Nat.eqb_eq in Hb. cbn [In]. rewrite Hrec. split.
      * intros [<- | (pr & Hle & Hn & Hl)].
        -- exists pr0. rewrite Nat.sub_diag. auto.
        -- exists pr. split; [lia | auto].
      * intros (pr & Hle & Hn & Hl). destruct (Nat.eq_dec i q) as [Heq | Hne]; [now left|].
        right. exists pr. split; [lia | auto].
    + apply Nat.eqb_neq in Hb. rewrite Hrec. split.
      * intros (pr & Hle & Hn & Hl). exists pr. split; [lia | auto].
      * intros (pr & Hle & Hn & Hl). destruct (Nat.eq_dec i q) as [Heq | Hne].
        -- subst q. rewrite Nat.sub_diag in Hn. cbn in Hn. congruence.
        -- exists pr. split; [lia | auto].
Qed.

Lemma prods_of_In g B q :
  In q (prods_of g B) <-> exists pr, nth_error g q = Some pr /\ lhs pr = B.
Proof.
  unfold prods_of. rewrite prods_from_In. rewrite Nat.sub_0_r. split.
  - intros (pr & _ & H). exists pr. exact H.
  - intros (pr & H). exists pr. split; [lia | exact H].
Qed.

Lemma item_gen_spec tab g p d a y :
  In y (item_gen tab g (p, d, a)) <->
  exists pr B q prB x,
    nth_error g p = Some pr /\ nth_error (rhs pr) d = Some (NT B) /\
    nth_error g q = Some prB /\ lhs prB = B /\
    In x (first_seq_tab tab (skipn (S d) (rhs pr)) a) /\ y = (q, 0, x).
Proof.
  unfold item_gen. split.
  - destruct (nth_error g p) as [pr|] eqn:Hp; [|intros []].
    destruct (nth_error (rhs pr) d) as [[t|B]|] eqn:Hd; try (intros []).
    intros Hin. apply in_flat_map in Hin. destruct Hin as (q & Hq & Hin).
    apply in_map_iff in Hin. destruct Hin as (x & <- & Hx).
    apply prods_of_In in Hq. destruct Hq as (prB & HprB & Hl).
    exists pr, B, q, prB, x. auto 10.
  - intros (pr & B & q & prB & x & Hp & Hd & Hq & Hl & Hx & ->).
    rewrite Hp, Hd. apply in_flat_map. exists q. split.
    + apply prods_of_In. exists prB. auto.
    + apply in_map_iff. exists x. auto.
Qed.

Lemma add_new_spec new : forall acc work acc' work',
  add_new new acc work = (acc', work') ->
  (forall x, In x acc' <-> In x acc \/ In x new) /\
  (forall x, In x work' -> In x work \/ In x new) /\
  (forall x, In x work -> In x work') /\
  (forall x, In x acc' -> In x acc \/ In x work').
Proof.
  induction new as [|y new IH]; intros acc work acc' work' H; cbn [add_new] in H.
  - inversion H; subst. cbn. intuition.
  - destruct (imem y acc) eqn:Hm.
    + apply imem_In in Hm. destruct (IH _ _ _ _ H) as (H1 & H2 & H3 & H4).
      repeat split.
      * intros Hx. apply H1 in Hx. cbn. intuition.
      * intros [Hx | [<- | Hx]]; apply H1; auto.
      * intros x Hx. apply H2 in Hx. cbn. intuition.
      * exact H3.
      * exact H4.
    + destruct (IH _ _ _ _ H) as (H1 & H2 & H3 & H4).
      repeat split.
      * intros Hx. apply H1 in Hx. rewrite ins_item_In in Hx. cbn. intuition.
      * intros [Hx | [<- | Hx]]; apply H1; rewrite ?ins_item_In; auto.
      * intros x Hx. apply H2 in Hx. cbn in *. intuition.
      * intros x Hx. apply H3. now right.
      * intros x Hx. apply H4 in Hx. rewrite ins_item_In in Hx.
        destruct Hx as [[-> | Hx] | Hx]; auto. right. apply H3. now left.
Qed.

(* "generated from I by the closure rule", via item_gen *)
Inductive clos (tab : list entry) (g : grammar) (I : list item) : item -> Prop :=
| clos_in x : In x I -> clos tab g I x
| clos_gen x y : clos tab g I x -> In y (item_gen tab g x) -> clos tab g I y.

Definition closure_inv tab g (I work acc : list item) : Prop :=
  incl I acc /\
  incl work acc /\
  (forall x, In x acc -> In x work \/ forall y, In y (item_gen tab g x) -> In y acc) /\
  (forall x, In x acc -> clos tab g I x).

Lemma closure_loop_inv tab g I fuel : forall work acc C,
  closure_loop fuel tab g work acc = Some C ->
  closure_inv tab g I work acc -> closure_inv tab g I [] C.
Proof.
  induction fuel as [|f IH]; intros work acc C H Hinv; destruct work as [|it w]; cbn [closure_loop] in H.
  - inversion H; subst. exact Hinv.
  - discriminate.
  - inversion H; subst. exact Hinv.
  - destruct (add_new (item_gen tab g it) acc w) as [acc' w'] eqn:Hadd.
    apply (IH _ _ _ H). clear IH H.
    destruct (add_new_spec _ _ _ _ _ Hadd) as (H1 & H2 & H3 & H4).
    destruct Hinv as (Ha & Hb & Hc & Hd).
    assert (Hsub : incl acc acc') by (intros x Hx; apply H1; now left).
    repeat split.
    + intros x Hx. apply Hsub, Ha, Hx.
    + intros x Hx. apply H2 in Hx. apply H1. destruct Hx as [Hx | Hx]; [left; apply Hb; now right | now right].
    + intros x Hx. destruct (H4 x Hx) as [Hacc | Hw]; [|now left].
      destruct (Hc x Hacc) as [[<- | Hw] | Hg].
      * right. intros y Hy. apply H1. now right.
      * left. now apply H3.
      * right. intros y Hy. apply Hsub. now apply Hg.
    + intros x Hx. apply H1 in Hx. destruct Hx as [Hx | Hx]; [now apply Hd|].
      apply (clos_gen tab g I it); [|exact Hx]. apply Hd, Hb. now left.
Qed.

Theorem closure_ref_spec tab g I C :
  closure_ref tab g I = Some C ->
  incl I C /\
  (forall x y, In x C -> In y (item_gen tab g x) -> In y C) /\
  (forall x, In x C -> clos tab g I x).
Proof.
  unfold closure_ref. intros H.
  apply (closure_loop_inv tab g I) in H.
  - destruct H as (Ha & _ & Hc & Hd). split; [exact Ha|]. split; [|exact Hd].
    intros x y Hx Hy. destruct (Hc x Hx) as [[] | Hg]. now apply Hg.
  - repeat split.
    + intros x Hx. exact (proj2 (sort_set_In item_cmp item_cmp_eq x I) Hx).
    + intros x Hx. exact Hx.
    + intros x Hx. now left.
    + intros x Hx. apply clos_in. exact (proj1 (sort_set_In item_cmp item_cmp_eq x I) Hx).
Qed.

Lemma clos_lr1_closure tab g I x : clos tab g I x <-> lr1_closure tab g I x.
Proof.
  split.
  - induction 1 as [x Hx | x y Hx IH Hy]; [now apply lc_base|].
    destruct x as [[p d] a]. apply item_gen_spec in Hy.
    destruct Hy as (pr & B & q & prB & z & Hp & Hd & Hq & Hl & Hz & ->).
    eapply lc_step; eauto.
  - induction 1 as [x Hx | p d a pr B q prB x Hc IH Hp Hd Hq Hl Hx]; [now apply clos_in|].
    apply (clos_gen tab g I (p, d, a)); [exact IH|].
    apply item_gen_spec. exists pr, B, q, prB, x. auto 10.
Qed.

(* L1, closed: the closure contains its input and is closed under the closure rule *)
Theorem closure_ref_closed tab g I C :
  closure_ref tab g I = Some C ->
  incl I C /\
  (forall p d a pr B q prB x,
     In (p, d, a) C ->
     nth_error g p = Some pr -> nth_error (rhs pr) d = Some (NT B) ->
     nth_error g q = Some prB -> lhs prB = B ->
     In x (first_seq_tab tab (skipn (S d) (rhs pr)) a) ->
     In (q, 0, x) C).
Proof.
  intros H. destruct (closure_ref_spec _ _ _ _ H) as (Ha & Hc & _). split; [exact Ha|].
  intros p d a pr B q prB x Hin Hp Hd Hq Hl Hx. apply (Hc (p, d, a)); [exact Hin|].
  apply item_gen_spec. exists pr, B, q, prB, x. auto 10.
Qed.

(* L1, sound (least): only items justified by the closure rule *)
Theorem closure_ref_sound tab g I C :
  closure_ref tab g I = Some C -> forall x, In x C -> lr1_closure tab g I x.
Proof.
  intros H x Hx. destruct (closure_ref_spec _ _ _ _ H) as (_ & _ & Hd).
  now apply clos_lr1_closure, Hd.
Qed.

Theorem closure_ref_iff tab g I C :
  closure_ref tab g I = Some C -> forall x, In x C <-> lr1_closure tab g I x.
Proof.
  intros H x. split; [now apply (closure_ref_sound tab g I C)|].
  destruct (closure_ref_closed _ _ _ _ H) as (Ha & Hc).
  induction 1 as [y Hy | p d a pr B q prB y Hcl IH Hp Hd Hq Hl Hy]; [now apply Ha|].
  eapply Hc; eauto.
Qed.

(* with the table the construction uses, the rule reads  x in first_seq_spec g beta a *)
Corollary closure_ref_first_spec g I C :
  closure_ref (first_tab g) g I = Some C ->
  incl I C /\
  (forall p d a pr B q prB x,
     In (p, d, a) C ->
     nth_error g p = Some pr -> nth_error (rhs pr) d = Some (NT B) ->
     nth_error g q = Some prB -> lhs prB = B ->
     In x (first_seq_spec g (skipn (S d) (rhs pr)) a) ->
     In (q, 0, x) C) /\
  (forall x, In x C <-> lr1_closure (first_tab g) g I x).
Proof.
  intros H. destruct (closure_ref_closed _ _ _ _ H) as (Ha & Hc).
  split; [exact Ha|]. split; [exact Hc|]. now apply closure_ref_iff.
Qed.

(* ------------------------------------------------------------------ *)
(* L2: goto *)

Lemma advance_In g X I y :
  In y (advance g X I) <->
  exists p d a, In (p, d, a) I /\ sym_at g (p, d, a) = Some X /\ y = (p, S d, a).
Proof.
  unfold advance. rewrite in_flat_map. split.
  - intros (it & Hit & Hy). destruct (sym_at g it) as [Y|] eqn:Hs; [|destruct Hy].
    destruct (sym_eqb Y X) eqn:He; [|destruct Hy].
    apply sym_eqb_eq in He. subst Y. destruct it as [[p d] a].
    destruct Hy as [<- | []]. exists p, d, a. auto.
  - intros (p & d & a & Hin & Hs & ->). exists (p, d, a). split; [exact Hin|].
    rewrite Hs. assert (He : sym_eqb X X = true) by now apply sym_eqb_eq.
    rewrite He. now left.
Qed.

(* the items of goto(I, X) are exactly the advanced items plus their closure *)
Theorem goto_ref_kernel tab g I X J :
  goto_ref tab g I X = Some J ->
  (forall p d a, In (p, d, a) I -> sym_at g (p, d, a) = Some X -> In (p, S d, a) J) /\
  (forall x, In x J <-> lr1_closure tab g (advance g X I) x).
Proof.
  unfold goto_ref. intros H. split; [|now apply closure_ref_iff].
  intros p d a Hin Hs. apply (closure_ref_iff _ _ _ _ H). apply lc_base.
  apply advance_In. exists p, d, a. auto.
Qed.

(* every kernel item (dot > 0) of goto(I, X) is an advanced item of I: the
   closure rule only adds items with the dot at 0 *)
Corollary goto_ref_kernel_items tab g I X J p d a :
  goto_ref tab g I X = Some J -> In (p, S d, a) J ->
  In (p, d, a) I /\ sym_at g (p, d, a) = Some X.
Proof.
  intros H Hin. apply (proj2 (goto_ref_kernel _ _ _ _ _ H)) in Hin.
  inversion Hin as [x Hx | ]; subst.
  apply advance_In in Hx. destruct Hx as (p' & d' & a' & Hi & Hs & Heq).
  inversion Heq; subst. auto.
Qed.

(* ------------------------------------------------------------------ *)
(* L3: merging by LR(0) core *)

Lemma core_of_In St p d : In (p, d) (core_of St) <-> exists a, In (p, d, a) St.
Proof.
  unfold core_of. rewrite (sort_set_In pair_cmp pair_cmp_eq), in_map_iff. split.
  - intros ([[p' d'] a] & Heq & Hin). inversion Heq; subst. exists a. exact Hin.
  - intros (a & Hin). exists (p, d, a). auto.
Qed.

Lemma core_eqb_eq c1 c2 : core_eqb c1 c2 = true <-> c1 = c2.
Proof. apply list_eqb_eq, pair_cmp_eq. Qed.

Lemma find_core_some c ms j :
  find_core c ms = Some j -> exists J, nth_error ms j = Some (c, J).
Proof.
  revert j. induction ms as [|[c' J'] ms IH]; intros j; cbn [find_core]; [discriminate|].
  destruct (core_eqb c' c) eqn:He.
  - intros H. inversion H; subst. apply core_eqb_eq in He. subst c'. exists J'. reflexivity.
  - destruct (find_core c ms) as [k|] eqn:Hf; [|discriminate].
    intros H. inversion H; subst. destruct (IH k eq_refl) as (J & HJ). exists J. exact HJ.
Qed.

Lemma find_core_none c ms : find_core c ms = None -> ~ In c (map fst ms).
Proof.
  induction ms as [|[c' J'] ms IH]; cbn [find_core map fst In]; [tauto|].
  destruct (core_eqb c' c) eqn:He; [discriminate|].
  destruct (find_core c ms) as [k|] eqn:Hf; [discriminate|].
  intros _ [Heq | Hin]; [|now apply IH].
  subst c'. assert (Ht : core_eqb c c = true) by now apply core_eqb_eq. congruence.
Qed.

Lemma merge_into_nth St : forall ms j c J,
  nth_error ms j = Some (c, J) ->
  nth_error (merge_into j St ms) j = Some (c, union item_cmp St J) /\
  (forall k, k <> j -> nth_error (merge_into j St ms) k = nth_error ms k) /\
  map fst (merge_into j St ms) = map fst ms.
Proof.
  induction ms as [|[c0 J0] ms IH]; intros j c J Hn.
  - destruct j; discriminate.
  - destruct j as [|j]; cbn [merge_into].
    + cbn in Hn. inversion Hn; subst. split; [reflexivity|]. split; [|reflexivity].
      intros [|k] Hk; [congruence | reflexivity].
    + cbn in Hn. destruct (IH j c J Hn) as (H1 & H2 & H3). split; [exact H1|]. split.
      * intros [|k] Hk; [reflexivity|]. cbn. apply H2. congruence.
      * cbn. now rewrite H3.
Qed.

Lemma NoDup_snoc {A} (l : list A) x : NoDup l -> ~ In x l -> NoDup (l ++ [x]).
Proof.
  induction l as [|y l IH]; intros Hn Hx; cbn.
  - constructor; [intros [] | constructor].
  - inversion Hn; subst. constructor.
    + intros Hin. apply in_app_or in Hin. destruct Hin as [Hin | [<- | []]]; [auto|].
      apply Hx. now left.
    + apply IH; [assumption|]. intros Hin. apply Hx. now right.
Qed.

Lemma NoDup_map_fst_inj {A B} (l : list (A * B)) a b b' :
  NoDup (map fst l) -> In (a, b) l -> In (a, b') l -> b = b'.
Proof.
  induction l as [|[a0 b0] l IH]; intros Hn H1 H2; [destruct H1|].
  cbn in Hn. inversion Hn as [|? ? Hnot Hn']; subst.
  destruct H1 as [H1 | H1], H2 as [H2 | H2].
  - congruence.
  - inversion H1; subst. exfalso. apply Hnot. apply in_map_iff. exists (a, b'). auto.
  - inversion H2; subst. exfalso. apply Hnot. apply in_map_iff. exists (a, b). auto.
  - now apply IH.
Qed.

Definition core_ok (m : mstate) : Prop :=
  forall p d, In (p, d) (fst m) <-> exists a, In (p, d, a) (snd m).

(* canonical state St is mapped to merged state number j *)
Definition mapped (ms : list mstate) (St : list item) (j : nat) : Prop :=
  exists J, nth_error ms j = Some (core_of St, J) /\ incl St J.

Record minv (done : list (list item)) (ms : list mstate) (cm : list nat) : Prop := {
  mi_core : forall m, In m ms -> core_ok m;
  mi_nodup : NoDup (map fst ms);
  mi_from : forall c J x, In (c, J) ms -> In x J ->
            exists St, In St done /\ core_of St = c /\ In x St;
  mi_map : Forall2 (mapped ms) done cm }.

Lemma Forall2_mono {A B} (R1 R2 : A -> B -> Prop) l l' :
  (forall a b, R1 a b -> R2 a b) -> Forall2 R1 l l' -> Forall2 R2 l l'.
Proof. intros H. induction 1; constructor; auto. Qed.

Lemma mapped_mono ms ms2 :
  (forall j c J, nth_error ms j = Some (c, J) ->
     exists J', nth_error ms2 j = Some (c, J') /\ incl J J') ->
  forall St j, mapped ms St j -> mapped ms2 St j.
Proof.
  intros Hle St j (J & Hn & Hi). destruct (Hle _ _ _ Hn) as (J' & Hn' & Hi').
  exists J'. split; [exact Hn'|]. intros x Hx. apply Hi', Hi, Hx.
Qed.

Lemma merge_loop_inv : forall rest done ms cmap ms' cm',
  merge_loop rest ms cmap = (ms', cm') ->
  minv done ms (rev cmap) -> minv (done ++ rest) ms' cm'.
Proof.
  induction rest as [|St rest IH]; intros done ms cmap ms' cm' H Hinv; cbn [merge_loop] in H.
  - inversion H; subst. now rewrite app_nil_r.
  - replace (done ++ St :: rest) with ((done ++ [St]) ++ rest) by (rewrite <- app_assoc; reflexivity).
    destruct Hinv as [Hcore Hnd Hfrom Hmap].
    destruct (find_core (core_of St) ms) as [j|] eqn:Hf.
    + apply (IH _ _ _ _ _ H). clear IH H.
      destruct (find_core_some _ _ _ Hf) as (J & Hj).
      destruct (merge_into_nth St ms j _ _ Hj) as (H1 & H2 & H3).
      assert (Hle : forall k c J0, nth_error ms k = Some (c, J0) ->
                exists J', nth_error (merge_into j St ms) k = Some (c, J') /\ incl J0 J').
      { intros k c J0 Hk. destruct (Nat.eq_dec k j) as [-> | Hne].
        - rewrite Hj in Hk. inversion Hk; subst. exists (union item_cmp St J0).
          split; [exact H1|]. intros x Hx. apply (union_In item_cmp item_cmp_eq). now right.
        - exists J0. rewrite (H2 k Hne). split; [exact Hk | intros x Hx; exact Hx]. }
      constructor.
      * intros m Hm. apply In_nth_error in Hm. destruct Hm as (k & Hk).
        destruct (Nat.eq_dec k j) as [-> | Hne].
        -- rewrite H1 in Hk. inversion Hk; subst m. intros p d. cbn [fst snd].
           rewrite core_of_In. split.
           ++ intros (a & Ha). exists a. apply (union_In item_cmp item_cmp_eq). now left.
           ++ intros (a & Ha). apply (union_In item_cmp item_cmp_eq) in Ha.
              destruct Ha as [Ha | Ha]; [exists a; exact Ha|].
              apply core_of_In. apply (Hcore (core_of St, J)); [eapply nth_error_In; eauto|].
              exists a. exact Ha.
        -- rewrite (H2 k Hne) in Hk. apply Hcore. eapply nth_error_In; eauto.
      * now rewrite H3.
      * intros c J0 x Hin Hx. apply In_nth_error in Hin. destruct Hin as (k & Hk).
        destruct (Nat.eq_dec k j) as [-> | Hne].
        -- pose proof (eq_trans (eq_sym Hk) H1) as Heq. inversion Heq; subst c J0.
           apply (union_In item_cmp item_cmp_eq) in Hx. destruct Hx as [Hx | Hx].
           ++ exists St. split; [apply in_or_app; right; now left | auto].
           ++ destruct (Hfrom (core_of St) J x) as (S0 & Hs & Hc & Hx0); [eapply nth_error_In; eauto | exact Hx|].
              exists S0. split; [apply in_or_app; now left | auto].
        -- pose proof (eq_trans (eq_sym (H2 k Hne)) Hk) as Hk'.
           destruct (Hfrom c J0 x) as (S0 & Hs & Hc & Hx0); [eapply nth_error_In; exact Hk' | exact Hx|].
           exists S0. split; [apply in_or_app; now left | auto].
      * cbn [rev]. apply Forall2_app.
        -- apply (Forall2_mono (mapped ms)); [|exact Hmap]. intros S0 k. now apply mapped_mono.
        -- constructor; [|constructor]. exists (union item_cmp St J). split; [exact H1|].
           intros x Hx. apply (union_In item_cmp item_cmp_eq). now left.
    + apply (IH _ _ _ _ _ H). clear IH H.
      pose proof (find_core_none _ _ Hf) as Hnot.
      assert (Hle : forall k c J0, nth_error ms k = Some (c, J0) ->
                exists J', nth_error (ms ++ [(core_of St, St)]) k = Some (c, J') /\ incl J0 J').
      { intros k c J0 Hk. exists J0. split; [|intros x Hx; exact Hx].
        rewrite nth_error_app1; [exact Hk|]. apply nth_error_Some. congruence. }
      constructor.
      * intros m Hm. apply in_app_or in Hm. destruct Hm as [Hm | [<- | []]]; [now apply Hcore|].
        intros p d. cbn [fst snd]. apply core_of_In.
      * rewrite map_app. cbn [map fst]. now apply NoDup_snoc.
      * intros c J0 x Hin Hx. apply in_app_or in Hin. destruct Hin as [Hin | [Heq | []]].
        -- destruct (Hfrom c J0 x Hin Hx) as (S0 & Hs & Hc & Hx0).
           exists S0. split; [apply in_or_app; now left | auto].
        -- inversion Heq; subst c J0. exists St. split; [apply in_or_app; right; now left | auto].
      * cbn [rev]. apply Forall2_app.
        -- apply (Forall2_mono (mapped ms)); [|exact Hmap]. intros S0 k. now apply mapped_mono.
        -- constructor; [|constructor]. exists St. split; [|intros x Hx; exact Hx].
           rewrite nth_error_app2 by lia. now rewrite Nat.sub_diag.
Qed.

(* L3 *)
Theorem merge_preserves_core states ms cmap :
  merge_states states = (ms, cmap) ->
  (* one merged state per core *)
  NoDup (map fst ms) /\
  (* the key of a merged state is the LR(0) core of its items *)
  (forall c J, In (c, J) ms -> forall p d, In (p, d) c <-> exists a, In (p, d, a) J) /\
  (* every item of a merged state comes from a canonical state with that core *)
  (forall c J x, In (c, J) ms -> In x J ->
     exists St, In St states /\ core_of St = c /\ In x St) /\
  (* canonical state i goes to merged state (nth i cmap) with the same core, which contains it *)
  Forall2 (mapped ms) states cmap.
Proof.
  unfold merge_states. intros H.
  apply (merge_loop_inv states [] [] [] ms cmap) in H.
  - destruct H as [Hcore Hnd Hfrom Hmap]. cbn [app] in *. split; [exact Hnd|].
    split; [|split; [exact Hfrom | exact Hmap]].
    intros c J Hin. exact (Hcore (c, J) Hin).
  - constructor; cbn.
    + intros m [].
    + constructor.
    + intros c J x [].
    + constructor.
Qed.

(* hence a merged state is exactly the union of the canonical states with its core *)
Corollary merge_union states ms cmap c J :
  merge_states states = (ms, cmap) -> In (c, J) ms ->
  forall x, In x J <-> exists St, In St states /\ core_of St = c /\ In x St.
Proof.
  intros H Hin x. destruct (merge_preserves_core _ _ _ H) as (Hnd & _ & Hfrom & Hmap).
  split; [now apply Hfrom|].
  intros (St & Hs & Hc & Hx).
  assert (Hex : exists j, mapped ms St j).
  { clear -Hmap Hs. induction Hmap as [|S0 j l l' Hm _ IH]; [destruct Hs|].
    destruct Hs as [<- | Hs]; [exists j; exact Hm | now apply IH]. }
  destruct Hex as (j & J' & Hn & Hi). rewrite Hc in Hn.
  apply nth_error_In in Hn.
  rewrite (NoDup_map_fst_inj ms c J J' Hnd Hin Hn). now apply Hi.
Qed.

(* ------------------------------------------------------------------ *)
(* L4: the calculator grammar  e -> e + e | e * e | n   (+ = 2, * = 3, n = 4)
   with  e + e @left(1),  e * e @left(2). *)

Definition cell_view (r : result) (s t : nat) : option (list cact * list cact * bool) :=
  match cell_at r s t with
  | Some row => Some (c_raw row, c_res row, c_conflict row)
  | None => None
  end.

Example calc_resolved :
  r_ok r_calc = true /\
  r_conflicts r_calc = false /\
  (* the state after "e + e": core { e -> e . + e, e -> e + e ., e -> e . * e } *)
  find_state_by_core [(1, 1); (1, 3); (2, 1)] r_calc = Some 5 /\
  (* lookahead * : the shift (of e -> e . * e, listed once per item) is kept *)
  cell_view r_calc 5 3 = Some ([CReduce 1; CShift 4 [2; 2; 2]], [CShift 4 [2; 2; 2]], false) /\
  (* lookahead + : reduce (left grouping) *)
  cell_view r_calc 5 2 = Some ([CShift 3 [1; 1; 1]; CReduce 1], [CReduce 1], false) /\
  (* after "e * e": reduce on both *)
  find_state_by_core [(1, 1); (2, 1); (2, 3)] r_calc = Some 6 /\
  cell_view r_calc 6 2 = Some ([CShift 3 [1; 1; 1]; CReduce 2], [CReduce 2], false) /\
  cell_view r_calc 6 3 = Some ([CShift 4 [2; 2; 2]; CReduce 2], [CReduce 2], false).
Proof. vm_compute. repeat split. Qed.

Example calc_noprec_conflict :
  r_ok r_calc_noprec = true /\
  r_conflicts r_calc_noprec = true /\
  cell_view r_calc_noprec 5 3 =
    Some ([CReduce 1; CShift 4 [2; 2; 2]], [CReduce 1; CShift 4 [2; 2; 2]], true) /\
  (* exactly the four conflicting cells of docs/markdown/parser_conflicts.md *)
  map (fun row => (c_state row, c_term row)) (filter c_conflict (r_cells r_calc_noprec))
    = [(5, 2); (5, 3); (6, 2); (6, 3)].
Proof. vm_compute. repeat split. Qed.

(* @right at equal level (known finding D5):  e -> e ^ e @right(1) | n.
   The state after "e ^ e" has two items e -> e . ^ e (lookaheads EOF and ^),
   so the shift lists production 1 twice and the reduce wins. *)
Definition g_pow : grammar := [ mkp 0 [NT 1]; mkp 1 [NT 1; T 2; NT 1]; mkp 1 [T 3] ].
Definition pow_prec (p : nat) : nat := match p with 1 => 1 | _ => 0 end.
Definition pow_right (p : nat) : bool := match p with 1 => true | _ => false end.

Example pow_right_reduces :
  let r := lalr_ref g_pow pow_prec pow_right in
  r_ok r = true /\ r_conflicts r = false /\
  find_state_by_core [(1, 1); (1, 3)] r = Some 4 /\
  cell_view r 4 2 = Some ([CShift 3 [1; 1]; CReduce 1], [CReduce 1], false).
Proof. vm_compute. repeat split. Qed.

(* the FIRST defect does not exist in the reference: for g_d1 the state after
   Z reduces q -> Z on lookahead A (terminal 4) as well as on E (terminal 2) *)
Example d1_reference_has_reduce_on_A :
  let r := lalr_ref g_d1 no_prec all_left in
  r_ok r = true /\ r_conflicts r = false /\
  find_state_by_core [(2, 1)] r = Some 3 /\
  cell_view r 3 4 = Some ([CReduce 2], [CReduce 2], false) /\
  cell_view r 3 2 = Some ([CReduce 2], [CReduce 2], false).
Proof. vm_compute. repeat split. Qed.

Print Assumptions closure_ref_closed.
Print Assumptions closure_ref_sound.
Print Assumptions closure_ref_iff.
Print Assumptions closure_ref_first_spec.
Print Assumptions goto_ref_kernel.
Print Assumptions goto_ref_kernel_items.
Print Assumptions merge_preserves_core.
Print Assumptions merge_union.
Print Assumptions calc_resolved.
Print Assumptions calc_noprec_conflict.
Print Assumptions pow_right_reduces.
Print Assumptions d1_reference_has_reduce_on_A.
