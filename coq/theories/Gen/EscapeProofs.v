From Coq Require Import List ZArith Bool Lia.
From Lox Require Import Rang3.ClassModel Lex.Utf8Model Gen.EscapeModel.
Import ListNotations.
Local Open Scope Z_scope.

Local Notation step := (esc_step lit_simple lit_plain).

(* ---------- one iteration of unescape_loop ---------- *)

Lemma loop_step_ne : forall f b rest acc, b <> 92 ->
  unescape_loop (S f) (b :: rest) acc = unescape_loop f rest ((false, b) :: acc).
Proof.
  intros f b rest acc H.
  destruct b as [|p|p]; try reflexivity;
  do 7 (try (destruct p as [p|p|]; try reflexivity)).
  exfalso; apply H; reflexivity.
Qed.

Lemma loop_bs : forall f c r acc,
  unescape_loop (S f) (92 :: c :: r) acc =
  if c =? 110 then unescape_loop f r ((true, 10) :: acc) else
  if c =? 114 then unescape_loop f r ((true, 13) :: acc) else
  if c =? 116 then unescape_loop f r ((true, 9) :: acc) else
  if c =? 39 then unescape_loop f r ((true, 39) :: acc) else
  if c =? 92 then unescape_loop f r ((true, 92) :: acc) else
  if c =? 45 then unescape_loop f r ((true, 45) :: acc) else
  if c =? 120 then
    match hex_to_rune 2 r 0 with
    | Some (v, r') => unescape_loop f r' ((false, v) :: acc)
    | None => UPanic
    end else
  if c =? 117 then
    match hex_to_rune 4 r 0 with
    | Some (v, r') => unescape_loop f r' ((true, v) :: acc)
    | None => UPanic
    end else
  if c =? 85 then
    match hex_to_rune 8 r 0 with
    | Some (v, r') => unescape_loop f r' ((true, v) :: acc)
    | None => UPanic
    end else UPanic.
Proof.
  intros f c r acc.
  destruct c as [|p|p]; try reflexivity;
  do 7 (try (destruct p as [p|p|]; try reflexivity)).
Qed.

(* ---------- hex_to_rune ---------- *)

Lemma hex_len : forall n l a v l',
  hex_to_rune n l a = Some (v, l') -> length l = (n + length l')%nat.
Proof.
  induction n; intros l a v l' H; cbn [hex_to_rune] in H.
  - injection H; intros; subst; reflexivity.
  - destruct l as [|b l]; [discriminate|].
    destruct (hex_val b); [|discriminate].
    apply IHn in H. cbn [length]. lia.
Qed.

Lemma hex_all : forall h a, forallb is_hex h = true ->
  exists v, hex_to_rune (length h) h a = Some (v, []).
Proof.
  induction h as [|b h IH]; intros a H.
  - eexists; reflexivity.
  - cbn [forallb] in H. apply andb_true_iff in H. destruct H as [Hb Hh].
    cbn [length hex_to_rune]. unfold is_hex in Hb.
    destruct (hex_val b); [|discriminate]. apply IH; assumption.
Qed.

(* ---------- the literal automaton ---------- *)

Lemma fold_bad : forall l, fold_left step l EBad = EBad.
Proof. induction l; simpl; auto. Qed.

Lemma hex_run : forall k l a,
  fold_left step l (EHex (S k)) = ENorm ->
  exists v l', hex_to_rune (S k) l a = Some (v, l') /\
               fold_left step l' ENorm = ENorm /\
               (length l' < length l)%nat.
Proof.
  induction k; intros l a H; (destruct l as [|b l]; [discriminate|]);
    cbn [fold_left esc_step] in H; unfold is_hex in H;
    cbn [hex_to_rune]; destruct (hex_val b) as [hv|];
    try (rewrite fold_bad in H; discriminate).
  - eexists; eexists; split; [reflexivity|]. split; [exact H|]. cbn [length]; lia.
  - destruct (IHk l (a * 16 + hv) H) as (v & l' & E & F & L).
    exists v, l'. split; [exact E|]. split; [exact F|]. cbn [length]; lia.
Qed.

Lemma lit_loop : forall fuel l acc, (length l < fuel)%nat ->
  fold_left step l ENorm = ENorm ->
  exists items, unescape_loop fuel l acc = UOk items.
Proof.
  induction fuel; intros l acc Hl H0; [lia|].
  destruct l as [|b rest]; [eexists; reflexivity|].
  cbn [fold_left] in H0. cbn [length] in Hl.
  destruct (Z.eq_dec b 92) as [->|nb].
  - change (step ENorm 92) with EBs in H0.
    destruct rest as [|c r]; [discriminate|].
    cbn [fold_left] in H0. cbn [length] in Hl.
    rewrite loop_bs.
    destruct (Z.eqb_spec c 110) as [->|n1].
    { change (step EBs 110) with ENorm in H0. apply IHfuel; [lia|exact H0]. }
    destruct (Z.eqb_spec c 114) as [->|n2].
    { change (step EBs 114) with ENorm in H0. apply IHfuel; [lia|exact H0]. }
    destruct (Z.eqb_spec c 116) as [->|n3].
    { change (step EBs 116) with ENorm in H0. apply IHfuel; [lia|exact H0]. }
    destruct (Z.eqb_spec c 39) as [->|n4].
    { change (step EBs 39) with ENorm in H0. apply IHfuel; [lia|exact H0]. }
    destruct (Z.eqb_spec c 92) as [->|n5].
    { change (step EBs 92) with ENorm in H0. apply IHfuel; [lia|exact H0]. }
    destruct (Z.eqb_spec c 45) as [->|n6].
    { change (step EBs 45) with EBad in H0. rewrite fold_bad in H0. discriminate. }
    destruct (Z.eqb_spec c 120) as [->|n7].
    { change (step EBs 120) with (EHex 2) in H0.
      destruct (hex_run _ _ 0 H0) as (v & l' & E & F & L).
      rewrite E. apply IHfuel; [lia|exact F]. }
    destruct (Z.eqb_spec c 117) as [->|n8].
    { change (step EBs 117) with (EHex 4) in H0.
      destruct (hex_run _ _ 0 H0) as (v & l' & E & F & L).
      rewrite E. apply IHfuel; [lia|exact F]. }
    destruct (Z.eqb_spec c 85) as [->|n9].
    { change (step EBs 85) with (EHex 8) in H0.
      destruct (hex_run _ _ 0 H0) as (v & l' & E & F & L).
      rewrite E. apply IHfuel; [lia|exact F]. }
    exfalso. unfold esc_step, lit_simple in H0.
    rewrite !(proj2 (Z.eqb_neq _ _)) in H0 by assumption.
    cbn [orb] in H0. rewrite fold_bad in H0. discriminate.
  - rewrite loop_step_ne by exact nb.
    cbn [esc_step] in H0. rewrite (proj2 (Z.eqb_neq b 92) nb) in H0.
    destruct (lit_plain b).
    + apply IHfuel; [lia|exact H0].
    + rewrite fold_bad in H0. discriminate.
Qed.

(* 1 *)
Lemma unescape_literal_ok : forall l, is_literal_body l = true -> exists items, unescape l = UOk items.
Proof.
  intros l H. unfold is_literal_body in H.
  destruct (fold_left step l ENorm) eqn:E; try discriminate.
  unfold unescape. apply lit_loop; [lia|exact E].
Qed.

(* ---------- literal token ---------- *)

Lemma lit_tok_head : forall a r, a <> 39 -> is_literal_token (a :: r) = false.
Proof.
  intros a r H.
  destruct a as [|p|p]; try reflexivity;
  do 7 (try (destruct p as [p|p|]; try reflexivity)).
  exfalso; apply H; reflexivity.
Qed.

Lemma match39 : forall (q : Z) (b : list Z), q <> 39 ->
  match q :: b with 39 :: b0 => is_literal_body (rev b0) | _ => false end = false.
Proof.
  intros q b H.
  destruct q as [|p|p]; try reflexivity;
  do 7 (try (destruct p as [p|p|]; try reflexivity)).
  exfalso; apply H; reflexivity.
Qed.

Lemma fix_literal_cons : forall a r, r <> [] ->
  fix_literal (a :: r) = unescape_bytes (removelast r).
Proof. intros a r H. destruct r; [contradiction|reflexivity]. Qed.

(* 2 *)
Lemma fix_literal_ok : forall t, is_literal_token t = true -> exists bs, fix_literal t = Some bs.
Proof.
  intros t H. destruct t as [|a r]; [discriminate|].
  destruct (Z.eq_dec a 39) as [->|na];
    [|rewrite lit_tok_head in H by exact na; discriminate].
  change (match rev r with 39 :: b => is_literal_body (rev b) | _ => false end = true) in H.
  destruct (rev r) as [|q b] eqn:E; [discriminate|].
  destruct (Z.eq_dec q 39) as [->|nq];
    [|rewrite match39 in H by exact nq; discriminate].
  change (is_literal_body (rev b) = true) in H.
  assert (R : r = rev b ++ [39]).
  { rewrite <- (rev_involutive r), E. reflexivity. }
  subst r.
  rewrite fix_literal_cons by (intro X; apply app_eq_nil in X; destruct X; discriminate).
  rewrite removelast_last.
  destruct (unescape_literal_ok _ H) as [items Hi].
  unfold unescape_bytes. rewrite Hi. eexists; reflexivity.
Qed.

(* ---------- plain bytes ---------- *)

Lemma plain_loop : forall l fuel acc, (length l < fuel)%nat ->
  (forall b, In b l -> b <> 92) ->
  unescape_loop fuel l acc = UOk (rev acc ++ map (fun b => (false, b)) l).
Proof.
  induction l as [|b l IH]; intros fuel acc Hl H;
    (destruct fuel as [|f]; [cbn [length] in Hl; lia|]).
  - cbn [map]. rewrite app_nil_r. reflexivity.
  - rewrite loop_step_ne by (apply H; left; reflexivity).
    cbn [length] in Hl.
    rewrite IH; [|lia|intros x Hx; apply H; right; exact Hx].
    cbn [rev map]. rewrite <- app_assoc. reflexivity.
Qed.

(* 4 *)
Lemma unescape_plain_identity : forall l, (forall b, In b l -> b <> 92) -> unescape l = UOk (map (fun b => (false, b)) l).
Proof.
  intros l H. unfold unescape. rewrite plain_loop; [reflexivity|lia|exact H].
Qed.

(* ---------- class char ---------- *)

Lemma cc_bs : forall c r, is_class_char (92 :: c :: r) =
  if cc_simple c then match r with [] => true | _ => false end
  else if c =? 120 then Nat.eqb (List.length r) 2 && forallb is_hex r
  else if c =? 117 then Nat.eqb (List.length r) 4 && forallb is_hex r
  else if c =? 85 then Nat.eqb (List.length r) 8 && forallb is_hex r
  else false.
Proof. reflexivity. Qed.

Lemma cc_plain : forall b rest, b <> 92 ->
  is_class_char (b :: rest) = forallb (fun b => negb (b =? 92)) (b :: rest).
Proof.
  intros b rest H.
  destruct b as [|p|p]; try reflexivity;
  do 7 (try (destruct p as [p|p|]; try reflexivity)).
  exfalso; apply H; reflexivity.
Qed.

Lemma cc_hex_case : forall (n : nat) (r : list Z) (flag : bool) f,
  Nat.eqb (length r) n && forallb is_hex r = true ->
  exists items,
    match hex_to_rune n r 0 with
    | Some (v, r') => unescape_loop (S f) r' [(flag, v)]
    | None => UPanic
    end = UOk items /\ items <> [].
Proof.
  intros n r flag f H. apply andb_true_iff in H. destruct H as [Hn Hh].
  apply Nat.eqb_eq in Hn. subst n.
  destruct (hex_all r 0 Hh) as [v E]. rewrite E.
  eexists; split; [reflexivity|]. discriminate.
Qed.

(* 3 *)
Lemma unescape_class_char_ok : forall l, is_class_char l = true -> exists items, unescape l = UOk items /\ items <> [].
Proof.
  intros l H. destruct l as [|b rest]; [discriminate|].
  destruct (Z.eq_dec b 92) as [->|nb].
  - destruct rest as [|c r].
    { eexists; split; [reflexivity|discriminate]. }
    rewrite cc_bs in H. unfold cc_simple in H.
    unfold unescape. cbn [length]. rewrite loop_bs. revert H.
    destruct (Z.eqb_spec c 110) as [->|n1].
    { destruct r; intro H; [|exfalso; vm_compute in H; discriminate H].
      eexists; split; [reflexivity|discriminate]. }
    destruct (Z.eqb_spec c 114) as [->|n2].
    { destruct r; intro H; [|exfalso; vm_compute in H; discriminate H].
      eexists; split; [reflexivity|discriminate]. }
    destruct (Z.eqb_spec c 116) as [->|n3].
    { destruct r; intro H; [|exfalso; vm_compute in H; discriminate H].
      eexists; split; [reflexivity|discriminate]. }
    destruct (Z.eqb_spec c 39) as [->|n4].
    { intro H; exfalso; vm_compute in H; discriminate H. }
    destruct (Z.eqb_spec c 92) as [->|n5].
    { destruct r; intro H; [|exfalso; vm_compute in H; discriminate H].
      eexists; split; [reflexivity|discriminate]. }
    destruct (Z.eqb_spec c 45) as [->|n6].
    { destruct r; intro H; [|exfalso; vm_compute in H; discriminate H].
      eexists; split; [reflexivity|discriminate]. }
    destruct (Z.eqb_spec c 120) as [->|n7].
    { cbn [orb]. intro H. apply cc_hex_case; exact H. }
    destruct (Z.eqb_spec c 117) as [->|n8].
    { cbn [orb]. intro H. apply cc_hex_case; exact H. }
    destruct (Z.eqb_spec c 85) as [->|n9].
    { cbn [orb]. intro H. apply cc_hex_case; exact H. }
    cbn [orb]. intro H; discriminate.
  - rewrite cc_plain in H by exact nb.
    rewrite unescape_plain_identity.
    + eexists; split; [reflexivity|]. cbn [map]. discriminate.
    + intros x Hx. rewrite forallb_forall in H. specialize (H x Hx).
      apply negb_true_iff in H. apply Z.eqb_neq in H. exact H.
Qed.

(* ---------- fuel ---------- *)

Lemma loop_len : forall fuel l acc items,
  unescape_loop fuel l acc = UOk items ->
  (length items <= length l + length acc)%nat.
Proof.
  induction fuel; intros l acc items H; [discriminate|].
  destruct l as [|b rest].
  { injection H as H; subst items. rewrite rev_length. lia. }
  destruct (Z.eq_dec b 92) as [->|nb].
  - destruct rest as [|c r].
    { injection H as H; subst items. rewrite ?app_length, ?rev_length; cbn [length]; lia. }
    rewrite loop_bs in H.
    destruct (c =? 110); [apply IHfuel in H; cbn [length] in *; lia|].
    destruct (c =? 114); [apply IHfuel in H; cbn [length] in *; lia|].
    destruct (c =? 116); [apply IHfuel in H; cbn [length] in *; lia|].
    destruct (c =? 39); [apply IHfuel in H; cbn [length] in *; lia|].
    destruct (c =? 92); [apply IHfuel in H; cbn [length] in *; lia|].
    destruct (c =? 45); [apply IHfuel in H; cbn [length] in *; lia|].
    destruct (c =? 120).
    { destruct (hex_to_rune 2 r 0) as [[v r']|] eqn:E; [|discriminate].
      apply hex_len in E. apply IHfuel in H. cbn [length] in *; lia. }
    destruct (c =? 117).
    { destruct (hex_to_rune 4 r 0) as [[v r']|] eqn:E; [|discriminate].
      apply hex_len in E. apply IHfuel in H. cbn [length] in *; lia. }
    destruct (c =? 85).
    { destruct (hex_to_rune 8 r 0) as [[v r']|] eqn:E; [|discriminate].
      apply hex_len in E. apply IHfuel in H. cbn [length] in *; lia. }
    discriminate.
  - rewrite loop_step_ne in H by exact nb.
    apply IHfuel in H. cbn [length] in *; lia.
Qed.

(* 5 *)
Lemma unescape_fuel_enough : forall l items, unescape l = UOk items -> (length items <= length l)%nat.
Proof.
  intros l items H. unfold unescape in H. apply loop_len in H. cbn [length] in H. lia.
Qed.

(* 6 *)
Lemma unescape_panic_witnesses : unescape [92; 113] = UPanic /\ unescape [92; 120; 52] = UPanic /\ unescape [92; 117; 48; 48; 52; 103] = UPanic /\ is_literal_body [92; 113] = false /\ is_class_char [92; 120; 52] = false.
Proof. vm_compute. repeat split. Qed.

(* 7 *)
Example literal_body_nonvacuous : is_literal_body [97; 92; 110; 92; 120; 52; 49; 92; 117; 50; 48; 65; 67] = true /\ is_class_char [92; 85; 48; 48; 48; 49; 70; 54; 48; 48] = true /\ is_class_char [92] = true /\ is_literal_token [39; 92; 39; 39] = true.
Proof. vm_compute. repeat split. Qed.

Print Assumptions unescape_literal_ok.
Print Assumptions fix_literal_ok.
Print Assumptions unescape_class_char_ok.
Print Assumptions unescape_plain_identity.
Print Assumptions unescape_fuel_enough.
