(* C15: the code point on_char_class gives a class item.  parser.go:
     toRune := func(t Token) rune { r, _ := utf8.DecodeRuneInString(unescape(t.Str)); return r }
   over the models of unescape (ClassModel/EscapeModel) and of DecodeRune (Utf8Model). *)
From Coq Require Import List ZArith Bool.
From Lox Require Import Rang3.ClassModel Lex.Utf8Model Gen.EscapeModel.
Import ListNotations.
Local Open Scope Z_scope.

Definition class_char_rune (tok : list Z) : option Z :=
  match unescape_bytes tok with
  | Some bs =>
    match decode_rune bs with
    | Some (r, _, _) => Some r
    | None => Some RuneError                 (* DecodeRuneInString("") = (RuneError, 0) *)
    end
  | None => None                             (* unescape panics *)
  end.

Definition hex_digit (d : Z) : Z := match hex_val d with Some v => v | None => 0 end.
(* value of a big-endian hex numeral *)
Definition hex_value (ds : list Z) : Z := fold_left (fun acc d => acc * 16 + hex_digit d) ds 0.

(* the runes of a literal: DecodeRune over the unescaped bytes (lexer_term_literal.go ranges over the string) *)
Definition literal_runes (body : list Z) : option (list Z) :=
  match unescape_bytes body with
  | Some bs => Some (map fst (decode_all bs))
  | None => None
  end.
