(* C04 — conflicts are reported exactly when the grammar is not LALR(1).
   Statements only.  The global statement (lox's automaton = the LALR(1)
   automaton, for all grammars) is decided per grammar by comparing the dumped
   automaton with the reference construction Gen/LALRRef.lalr_ref; what is
   proved for all grammars is listed here: the reference's ingredients and the
   conflict-resolution rule. *)
From Coq Require Import List Arith Bool.
From Lox Require Import Parse.Grammar Gen.FirstModel Gen.FirstProofs Gen.ResolveModel Gen.ResolveProofs
  Gen.LALRRef Gen.LALRProofs.
Import ListNotations.

(* precedence settles only shift/reduce conflicts among productions of one
   rule that all carry explicit qualifiers: whenever a cell is resolved it had
   exactly one shift and one reduce, all productions of one rule, all
   precedences > 0, and one of the two actions is kept — so reduce/reduce
   conflicts and conflicts spanning rules are never hidden *)
Theorem C04_resolve_only_sr_same_rule :
  forall prec assoc_right rule_of cell r,
    resolve prec assoc_right rule_of cell = Some r ->
    exists tgt sp p,
      sr_cell cell tgt sp p /\ sp <> [] /\
      (forall q, In q sp -> rule_of q = rule_of p) /\
      (forall q q', In q sp -> In q' sp -> prec q = prec q') /\
      (forall q, In q sp -> 0 < prec q) /\ 0 < prec p /\
      (r = [CShift tgt sp] \/ r = [CReduce p]).
Proof. exact resolve_only_sr_same_rule. Qed.
Print Assumptions C04_resolve_only_sr_same_rule.

(* FIRST of the reference is the real FIRST: complete for every grammar, sound
   for grammars whose rules all derive something *)
Theorem C04_first_spec_complete :
  forall g n tr u, wt g (NT n) tr u ->
    (u = [] -> nullable_spec g n = true) /\
    (forall a i u', u = (a, i) :: u' -> In a (first_spec g n)).
Proof. exact first_spec_complete. Qed.
Print Assumptions C04_first_spec_complete.
Theorem C04_first_spec_sound :
  forall g n, productive g ->
    (forall t, In t (first_spec g n) -> exists tr i u, wt g (NT n) tr ((t, i) :: u)) /\
    (nullable_spec g n = true -> exists tr, wt g (NT n) tr []).
Proof. exact first_spec_sound. Qed.
Print Assumptions C04_first_spec_sound.

(* the reference closure is exactly the textbook LR(1) closure rule *)
Theorem C04_closure_ref_iff :
  forall tab g I C, closure_ref tab g I = Some C -> forall x, In x C <-> lr1_closure tab g I x.
Proof. exact closure_ref_iff. Qed.
Print Assumptions C04_closure_ref_iff.

(* merging by LR(0) core: each merged state is the union of the canonical states with its core *)
Theorem C04_merge_preserves_core :
  forall states ms cmap, merge_states states = (ms, cmap) ->
    NoDup (map fst ms) /\
    (forall c J, In (c, J) ms -> forall p d, In (p, d) c <-> exists a, In (p, d, a) J) /\
    (forall c J x, In (c, J) ms -> In x J -> exists St, In St states /\ core_of St = c /\ In x St) /\
    Forall2 (mapped ms) states cmap.
Proof. exact merge_preserves_core. Qed.
Print Assumptions C04_merge_preserves_core.

(* the FIRST function of the pinned tree lost lookaheads (shared visited set):
   refuted on the Gallina mirror of the old code; repaired by a fix: commit *)
Theorem C04_first_go_refuted :
  first_go g_d1 [NT 3; T 2; T 0] = [Some 2] /\ first_seq_spec g_d1 [NT 3; T 2] 0 = [2; 4].
Proof. split; vm_compute; reflexivity. Qed.
Print Assumptions C04_first_go_refuted.
