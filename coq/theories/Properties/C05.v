(* C05 — @left/@right(n) give the documented operator grouping.  Statements only.
   The reference "the way a precedence-climbing parser would" is Gen/PrecClimb.climb;
   these theorems say it returns THE unique tree that respects levels and
   associativity, so the differential check against it decides the property's
   wording.  The generated parser is compared with it per grammar by the harness
   (translation validation); the local conflict-resolution rule is proved below. *)
From Coq Require Import List Arith Bool.
From Lox Require Import Gen.PrecClimb Gen.PrecClimbProofs Gen.ResolveModel Gen.ResolveProofs.
Import ListNotations.

Theorem C05_climb_characterised :
  forall tbl toks t, uniformb tbl = true ->
    (climb tbl toks = Some t <->
     yield t = toks /\ well_grouped tbl t = true /\ toks_known tbl toks = true).
Proof. exact climb_characterised. Qed.
Print Assumptions C05_climb_characterised.

Theorem C05_well_grouped_unique :
  forall tbl t1 t2, uniform tbl -> ops_known tbl t1 = true ->
    well_grouped tbl t1 = true -> well_grouped tbl t2 = true -> yield t1 = yield t2 -> t1 = t2.
Proof. exact well_grouped_unique. Qed.
Print Assumptions C05_well_grouped_unique.

Theorem C05_climb_never_out_of_fuel : forall tbl toks, climb_res tbl toks <> PFuel.
Proof. exact fuel_adequate. Qed.
Print Assumptions C05_climb_never_out_of_fuel.

(* the rule lox applies to a shift/reduce cell is the documented one (higher
   level wins; equal level: @left reduces, @right shifts) ... *)
Theorem C05_resolve_agrees_with_doc :
  forall prec assoc_right rule_of cell tgt sp p r q,
    sr_cell cell tgt sp p -> resolve prec assoc_right rule_of cell = Some r -> In q sp ->
    (~ (prec q = prec p /\ assoc_right p = true) \/ sp = [p]) ->
    r = if doc_choice prec assoc_right q p then [CShift tgt sp] else [CReduce p].
Proof. exact resolve_agrees_with_doc_unless_right_duplicate. Qed.
Print Assumptions C05_resolve_agrees_with_doc.

(* ... EXCEPT at equal level with @right when the shift action does not list
   exactly the reduced production once: then the reduce is kept although the
   documentation says shift.  This is the recorded known finding (the shift
   action lists a production once per lookahead item). *)
Theorem C05_resolve_right_refuted :
  forall prec assoc_right rule_of cell tgt sp p r q,
    sr_cell cell tgt sp p -> resolve prec assoc_right rule_of cell = Some r -> In q sp ->
    prec q = prec p -> assoc_right p = true -> sp <> [p] ->
    doc_choice prec assoc_right q p = true /\ r = [CReduce p].
Proof. exact resolve_disagrees_with_doc_right. Qed.
Print Assumptions C05_resolve_right_refuted.
