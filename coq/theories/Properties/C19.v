(* C19 — token constants: one per terminal, EOF = 0, ERROR = 1, dense, in
   declaration order; _TokenToString total.  Statements only (the model
   Gen/Numbering.v is tied to base.gen.go, the lexer tables and the parser table
   keys by the harness on every run). *)
From Coq Require Import List String ZArith Bool.
From Lox Require Import Gen.Numbering Gen.NumberingProofs.
Import ListNotations.

Theorem C19_eof_error_fixed :
  forall files,
    index_of (terminals files) "EOF"%string = Some 0 /\
    index_of (terminals files) "ERROR"%string = Some 1 /\
    token_to_string (terminals files) 0%Z = "EOF"%string /\
    token_to_string (terminals files) 1%Z = "ERROR"%string.
Proof. exact eof_error_fixed. Qed.
Print Assumptions C19_eof_error_fixed.

(* names <-> numbers is a bijection onto 0..n-1 *)
Theorem C19_numbering_dense :
  forall ts : list string, NoDup ts ->
    (forall i n, nth_error ts i = Some n -> index_of ts n = Some i) /\
    (forall n i, index_of ts n = Some i -> nth_error ts i = Some n /\ i < List.length ts) /\
    (forall n, In n ts <-> exists i, index_of ts n = Some i) /\
    (forall n m i, index_of ts n = Some i -> index_of ts m = Some i -> n = m).
Proof. exact numbering_dense. Qed.
Print Assumptions C19_numbering_dense.

(* which holds for every specification lox accepts (names distinct, not reserved) *)
Theorem C19_terminals_nodup :
  forall files, NoDup (spec_names files) ->
    ~ In "EOF"%string (spec_names files) -> ~ In "ERROR"%string (spec_names files) -> NoDup (terminals files).
Proof. exact terminals_nodup. Qed.
Print Assumptions C19_terminals_nodup.

(* _TokenToString: every constant maps to its name, every other value to "???"%string *)
Theorem C19_token_to_string_total :
  forall ts : list string,
    (forall n i, index_of ts n = Some i -> token_to_string ts (Z.of_nat i) = n) /\
    (forall t, (t < 0 \/ Z.of_nat (List.length ts) <= t)%Z -> token_to_string ts t = "???"%string).
Proof. exact token_to_string_total. Qed.
Print Assumptions C19_token_to_string_total.

(* the number of a token is 2 + the number of terminals declared before it,
   across files, modes and @external lists *)
Theorem C19_declaration_order :
  forall fpre dpre d dpost fpost npre n npost,
    decl_names d = npre ++ [n] ++ npost ->
    let files := fpre ++ [dpre ++ [d] ++ dpost] ++ fpost in
    NoDup (terminals files) ->
    index_of (terminals files) n =
      Some (2 + List.length (spec_names fpre) + List.length (decls_names dpre) + List.length npre).
Proof. exact declaration_order. Qed.
Print Assumptions C19_declaration_order.
