(* C15 — character classes and literals denote exact code-point sets.
   Statements only; proofs are in Rang3/RangeProofs*.v.  The model
   (Rang3/RangeModel.v, ClassModel.v) is tied to internal/lexergen/rang3 and
   internal/ast/char_class*.go by exact differential comparison on every run. *)
From Coq Require Import List ZArith Bool Sorting.Sorted Sorting.Permutation.
From Lox Require Import Rang3.RangeModel Rang3.ClassModel Rang3.RangeProofs Rang3.RangeProofsSub
  Rang3.RangeProofsClass Rang3.RangeProofsUniq Rang3.RangeProofsNorm.
From Lox Require Import Lex.Utf8Model Gen.EscapeModel Gen.EscapeRune Gen.EscapeRuneProofs Gen.PairProofs.
Import ListNotations.
Open Scope Z_scope.

(* Flatten: merging never adds or loses a code point, for every list of well-formed ranges. *)
Theorem C15_flatten_denotes : forall l, Forall wfr l -> forall c, inrs c (flatten l) <-> inrs c l.
Proof. exact flatten_denotes. Qed.
Print Assumptions C15_flatten_denotes.

(* ... and its result is sorted, well-formed and gap-separated (hence a valid sorted disjoint table row). *)
Theorem C15_flatten_canon : forall l, Forall wfr l -> canon (flatten l).
Proof. exact flatten_canon. Qed.
Print Assumptions C15_flatten_canon.

(* The result does not depend on how the unstable second sort orders ranges with equal lower bound. *)
Theorem C15_flatten_any_order : forall l l', Forall wfr l -> Permutation l l' ->
  StronglySorted (fun a b => rB a <= rB b) l' ->
  (forall c, inrs c (fst (merge_pass [] [] l')) <-> inrs c l) /\
  fst (merge_pass [] [] l') = flatten l.
Proof. exact flatten_any_order. Qed.
Print Assumptions C15_flatten_any_order.

(* Subtract is set difference, terminates within the model's fuel, for all well-formed inputs. *)
Theorem C15_subtract_denotes : forall a b, Forall wfr a -> Forall wfr b ->
  exists r, subtract a b = Some r /\ (forall c, inrs c r <-> inrs c a /\ ~ inrs c b).
Proof. exact subtract_denotes. Qed.
Print Assumptions C15_subtract_denotes.

Theorem C15_subtract_sorted : forall a b r, canon a -> Forall wfr b -> subtract a b = Some r ->
  StronglySorted (fun x y => rE x < rB y) r /\ Forall wfr r.
Proof. exact subtract_sorted. Qed.
Print Assumptions C15_subtract_sorted.

(* Normalize: every callback replaces a range by an exact disjoint partition of it ... *)
Theorem C15_normalize_calls_partition : forall l log, Forall wfr l -> normalize l = NDone log ->
  Forall (fun '(o,a,b,c) =>
    wfr a /\ wfr b /\ wfr c /\
    (forall x, inr x o <-> inr x a \/ inr x b \/ inr x c) /\
    (forall x, ~ (inr x a /\ inr x b)) /\
    (c = b \/ (forall x, ~ (inr x a /\ inr x c)) /\ (forall x, ~ (inr x b /\ inr x c)))) log.
Proof. exact normalize_calls_partition. Qed.
Print Assumptions C15_normalize_calls_partition.

(* ... the pieces left at the end are pairwise disjoint and cover exactly the original code points ... *)
Theorem C15_normalize_final_disjoint : forall l log, Forall wfr l -> normalize l = NDone log ->
  let final := replay (heap_of l) log in
  (forall p q, In p final -> In q final -> p = q \/ (forall x, ~ (inr x p /\ inr x q))) /\
  (forall x, inrs x final <-> inrs x l).
Proof. exact normalize_final_disjoint. Qed.
Print Assumptions C15_normalize_final_disjoint.

(* ... and the loop neither reaches its "not reached" panic nor runs out of the model's fuel. *)
Theorem C15_normalize_no_panic : forall l, Forall wfr l -> forall log, normalize l <> NPanic log.
Proof. exact normalize_no_panic. Qed.
Print Assumptions C15_normalize_no_panic.
Theorem C15_normalize_terminates : forall l, Forall wfr l -> normalize l <> NFuel.
Proof. exact normalize_fuel_enough. Qed.
Print Assumptions C15_normalize_terminates.

(* Class expressions (ranges, negation, difference, '.') denote their set-theoretic meaning on 0..0x10FFFF. *)
Theorem C15_class_denotes : forall e, cwf e ->
  exists rs, get_ranges e = Some rs /\ Forall wfr rs /\
    (forall c, 0 <= c <= max_rune -> (inrs c rs <-> csem e c)).
Proof. exact class_denotes. Qed.
Print Assumptions C15_class_denotes.

(* Non-vacuity: concrete overlapping, touching, boundary ranges meet the hypotheses. *)
Example C15_nonvacuous :
  Forall wfr [(0,3); (2,9); (10,10); (1114111,1114111)] /\
  flatten [(0,3); (2,9); (10,10); (1114111,1114111)] = [(0,10); (1114111,1114111)] /\
  cwf (CSub (CClass true [(97,122)]) (CClass false [(0,9)])) /\
  get_ranges (CSub (CClass true [(97,122)]) (CClass false [(0,9)])) = Some [(10,96); (123,1114111)].
Proof.
  split; [|split; [|split]].
  - repeat constructor; unfold wfr, rB, rE; cbn [fst snd]; apply Z.leb_le; vm_compute; reflexivity.
  - vm_compute; reflexivity.
  - cbn [cwf]. split; repeat constructor; cbn [rB rE fst snd]; try (apply Z.leb_le; vm_compute; reflexivity).
  - vm_compute; reflexivity.
Qed.

(* ---- escapes (internal/parser/parser.go unescape / on_char_class toRune / lexer_term_literal.go) ----
   The code point a class item or a literal character stands for, through the
   models of unescape (bytes written) and of utf8.DecodeRune. *)

(* \uXXXX denotes exactly the code point XXXX, for every scalar value *)
Theorem C15_escape_u_denotes : forall ds, length ds = 4%nat -> forallb is_hex ds = true ->
  0 <= hex_value ds <= 1114111 -> ~ (55296 <= hex_value ds <= 57343) ->
  class_char_rune (92 :: 117 :: ds) = Some (hex_value ds).
Proof. exact escape_u_denotes. Qed.
Print Assumptions C15_escape_u_denotes.

(* \UXXXXXXXX likewise *)
Theorem C15_escape_U_denotes : forall ds, length ds = 8%nat -> forallb is_hex ds = true ->
  0 <= hex_value ds <= 1114111 -> ~ (55296 <= hex_value ds <= 57343) ->
  class_char_rune (92 :: 85 :: ds) = Some (hex_value ds).
Proof. exact escape_U_denotes. Qed.
Print Assumptions C15_escape_U_denotes.

(* \n \r \t \\ \- and the lone backslash *)
Theorem C15_escape_simple_denotes :
  class_char_rune [92; 110] = Some 10 /\ class_char_rune [92; 114] = Some 13 /\
  class_char_rune [92; 116] = Some 9 /\ class_char_rune [92; 92] = Some 92 /\
  class_char_rune [92; 45] = Some 45 /\ class_char_rune [92] = Some 92.
Proof. exact escape_simple_denotes. Qed.
Print Assumptions C15_escape_simple_denotes.

(* an unescaped character denotes itself, for every scalar value other than the backslash *)
Theorem C15_plain_char_denotes : forall r, 0 <= r <= 1114111 -> ~ (55296 <= r <= 57343) -> r <> 92 ->
  class_char_rune (encode_rune r) = Some r.
Proof. exact plain_char_denotes. Qed.
Print Assumptions C15_plain_char_denotes.

(* a literal without escapes matches exactly its code-point sequence *)
Theorem C15_literal_runes_plain : forall rs,
  Forall (fun r => (0 <= r <= 1114111 /\ ~ (55296 <= r <= 57343)) /\ r <> 92) rs ->
  literal_runes (encode_all rs) = Some rs.
Proof. exact literal_runes_plain. Qed.
Print Assumptions C15_literal_runes_plain.

(* outside the hypotheses the code does something else: \xff is a byte (decoded to U+FFFD),
   a surrogate or a value above U+10FFFF becomes U+FFFD.  The property's list of escapes
   does not include \x; the others are not code points. *)
Theorem C15_escape_oddities :
  class_char_rune [92; 120; 102; 102] = Some 65533 /\
  class_char_rune [92; 117; 100; 56; 48; 48] = Some 65533 /\
  class_char_rune [92; 85; 48; 48; 49; 49; 48; 48; 48; 48] = Some 65533 /\
  class_char_rune [92; 85; 70; 70; 70; 70; 70; 70; 70; 70] = Some 65533.
Proof. exact escape_oddities. Qed.
Print Assumptions C15_escape_oddities.

(* ---- x-y pairing of class items (on_char_class) ----
   A class body written as items, each a character or character '-' character,
   is read back as exactly those items, whatever the characters are (the
   escaped dash, a CLASS_CHAR whose rune is 45, included). *)
Theorem C15_pair_render : forall its, class_items (flat_map render its) = map denote its.
Proof. exact pair_render. Qed.
Print Assumptions C15_pair_render.

(* an unescaped dash without a character on one side is a member, and an escaped dash never pairs *)
Theorem C15_pair_dash_edges : forall a,
  class_items [(false, a); (true, 45)] = [(a, a); (45, 45)] /\
  class_items [(true, 45); (false, a)] = [(45, 45); (a, a)] /\
  class_items [(false, a); (true, 45); (true, 45)] = [(a, 45)] /\
  class_items [(false, a); (false, 45); (false, a)] = [(a, a); (45, 45); (a, a)].
Proof. exact pair_dash_edges. Qed.
Print Assumptions C15_pair_dash_edges.
