(* C10 — emitted tables are faithful to the automata they encode.  Statements only. *)
From Coq Require Import List ZArith Bool.
From Lox Require Import Parse.Tables Lex.LexRuntime Lex.LexAuto Lex.LexEquiv Lex.NfaRef
  Lex.LexLookupProofs Lex.LexDecodeProofs Lex.LexEquivProofs Gen.TableEnc Gen.TableEncProofs.
Import ListNotations.
Open Scope Z_scope.

(* --- the row-compression encoder (codegen/table.go), for ALL row lists --- *)

(* reading the array the way the generated code does returns each row; gaps read -1 *)
Theorem C10_array_decode :
  forall rows arr, build rows = Some arr ->
    (forall i row, In (i, row) rows ->
       read_row arr (Z.of_nat i) = Some row /\
       exists off, nthz arr (Z.of_nat i) = Some off /\ nthz arr off = Some (Z.of_nat (length row)) /\
                   seg arr (off + 1) row) /\
    (forall i m row', In (m, row') rows -> (i <= m)%nat -> ~ In i (map fst rows) ->
       nthz arr (Z.of_nat i) = Some (-1) /\ read_row arr (Z.of_nat i) = None).
Proof. exact array_decode. Qed.
Print Assumptions C10_array_decode.

(* rows share storage only when identical (the varint row key is injective) *)
Theorem C10_share_iff_identical :
  forall miss rows arr, build_with miss rows = Some arr ->
    forall i1 r1 i2 r2, In (i1, r1) rows -> In (i2, r2) rows ->
      (nthz arr (Z.of_nat i1) = nthz arr (Z.of_nat i2) <-> r1 = r2).
Proof. exact share_iff_identical. Qed.
Print Assumptions C10_share_iff_identical.
Theorem C10_row_key_injective : forall r1 r2, row_key r1 = row_key r2 -> r1 = r2.
Proof. exact row_key_injective. Qed.
Print Assumptions C10_row_key_injective.

(* every index stays inside its table *)
Theorem C10_offsets_in_bounds :
  forall rows arr, build rows = Some arr ->
    forall i m row', In (m, row') rows -> (i <= m)%nat ->
      exists off, nthz arr (Z.of_nat i) = Some off /\
        (off = -1 \/
         exists row, In (i, row) rows /\ nthz arr off = Some (Z.of_nat (length row)) /\
                     seg arr (off + 1) row /\ Z.of_nat m < off /\
                     off + 1 + Z.of_nat (length row) <= Z.of_nat (length arr)).
Proof. exact offsets_in_bounds. Qed.
Print Assumptions C10_offsets_in_bounds.

(* _Find on the encoded parser rows is the association list that was encoded:
   the tables contain exactly the actions and gotos of the constructed automaton *)
Theorem C10_find_is_assoc :
  forall rows arr s ps, build rows = Some arr -> In (s, flat_pairs ps) rows -> NoDup (map fst ps) ->
    (forall x v, In (x, v) ps -> find arr (Z.of_nat s) x = FFound v) /\
    (forall x, ~ In x (map fst ps) -> find arr (Z.of_nat s) x = FNone) /\
    (forall x, find arr (Z.of_nat s) x <> FCrash).
Proof. exact find_is_assoc. Qed.
Print Assumptions C10_find_is_assoc.

(* a lexer row decodes to the flag, range triples and action pairs it was built from *)
Theorem C10_lex_row_decode :
  forall rows arr s flag trans acts, build_u rows = Some arr ->
    In (s, encode_lex_row flag trans acts) rows ->
    decode_row arr (Z.of_nat s) = Some {| v_flag := flag; v_trans := trans; v_acts := acts |}.
Proof. exact lex_row_decode. Qed.
Print Assumptions C10_lex_row_decode.

(* --- equivalence with the automaton the tables were built from --- *)

(* binary search over a sorted disjoint row is membership *)
Theorem C10_lookup_rep :
  forall (X : Type) (tr : list (Z * Z * X)) (pts : list Z) (r : Z),
    (forall lo hi x, In (lo, hi, x) tr -> In lo pts /\ In (hi + 1) pts) ->
    forall b, In b pts -> b <= r -> (forall b', In b' pts -> b' <= r -> b' <= b) ->
      lookup X tr r = lookup X tr b.
Proof. exact lookup_rep. Qed.
Print Assumptions C10_lookup_rep.

(* a closed product exploration against ANY reference automaton (here: the
   powerset of the dumped NFA) makes table and reference equal on all strings *)
Theorem C10_equiv_lex :
  forall (R : Type) (reqb : R -> R -> bool) (modes : list (list Z))
         (RA : nat -> R -> option (view R)) (rstart : nat -> R) (visited : list (pair R)),
    (forall a b, reqb a b = true <-> a = b) ->
    closed R reqb modes RA rstart visited = true ->
    modes_wf modes = true ->
    forall fuel inp,
      (forall r w, In (r, w) inp -> 0 <= r <= 1114111) ->
      lex_tables modes fuel inp = g_lex R RA rstart (length modes) fuel inp.
Proof. exact equiv_lex. Qed.
Print Assumptions C10_equiv_lex.
