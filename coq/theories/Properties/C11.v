(* C11 — lexing always reaches EOF and accounts for every character.
   Statements only.  [lex_tables] is the exact model of the generated state
   machine under simplelexer.ReadToken; an input is a list of (code point,
   byte width) as the driver's rune reader delivers them. *)
From Coq Require Import List ZArith Bool.
From Lox Require Import Lex.LexRuntime Lex.LexAuto Lex.LexTotalProofs Lex.Utf8Model Lex.Utf8Lex.
Import ListNotations.
Open Scope Z_scope.

(* for every structurally well-formed table set and every input, reading tokens
   reaches EOF within 3*|input|+1 ReadToken calls *)
Theorem C11_lex_total :
  forall modes, modes_wf modes = true ->
    forall inp, (forall r w, In (r, w) inp -> 0 <= r) ->
      exists segs, lex_tables modes (3 * length inp + 1) inp = LDone segs.
Proof. exact lex_total. Qed.
Print Assumptions C11_lex_total.

(* ... and never panics *)
Theorem C11_lex_no_crash :
  forall modes, modes_wf modes = true -> forall fuel inp, lex_tables modes fuel inp <> LCrash.
Proof. exact lex_no_crash. Qed.
Print Assumptions C11_lex_no_crash.

(* every byte before EOF lies in exactly one emitted token, one discarded
   stretch or one error stretch, in order: the segments tile [0, total width)
   and the final EOF segment is empty — for ANY tables *)
Theorem C11_lex_exact_tiling :
  forall modes fuel inp segs,
    (forall r w, In (r, w) inp -> 0 <= r) ->
    lex_tables modes fuel inp = LDone segs ->
    exists pre, segs = pre ++ [SegEOF (total_width inp) (total_width inp)] /\
                Forall noneof pre /\ tiles 0 pre (total_width inp).
Proof. exact lex_exact_tiling_any. Qed.
Print Assumptions C11_lex_exact_tiling.

Theorem C11_lex_no_loss :
  forall modes fuel inp segs, lex_tables modes fuel inp = LDone segs ->
    forall b e, In (SegEOF b e) segs -> b = e.
Proof. exact lex_no_loss_any. Qed.
Print Assumptions C11_lex_no_loss.

(* ---- over raw bytes (valid, invalid or truncated UTF-8): [lex_bytes] decodes
   with the mirror of utf8.DecodeRune and runs the tables ---- *)
Theorem C11_lex_bytes_total : forall modes bs, modes_wf modes = true ->
  exists segs, lex_bytes modes (3 * length (decode_all bs) + 1) bs = LDone segs.
Proof. exact lex_bytes_total. Qed.
Print Assumptions C11_lex_bytes_total.

(* every BYTE lies in exactly one token, discarded stretch or error stretch *)
Theorem C11_lex_bytes_tiling : forall modes fuel bs segs,
  lex_bytes modes fuel bs = LDone segs ->
  let n := Z.of_nat (length bs) in
  exists pre, segs = pre ++ [SegEOF n n] /\ Forall noneof pre /\ tiles 0 pre n.
Proof. exact lex_bytes_tiling. Qed.
Print Assumptions C11_lex_bytes_tiling.
