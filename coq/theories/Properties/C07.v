(* C07 — lexer modes form a stack; every action on a rule takes effect.  Statements only. *)
From Coq Require Import List ZArith Bool.
From Lox Require Import Lex.LexRuntime Lex.LexAuto Lex.ModeProofs.
Import ListNotations.
Open Scope Z_scope.

(* When the terminal action (accept / discard / accumulate) is the last pair of
   a row — checked on every emitted row (mode_terminal_last) — the action loop
   applies ALL mode actions of the row, in order, and then performs the
   terminal action: nothing written on a rule is lost, in whatever order it was
   written.  (apply_modes is the plain stack semantics: push saves the current
   mode, pop restores the saved one.) *)
Theorem C07_actions_all_effective :
  forall (nmodes : nat) (S : Type) (start : nat -> S) (acts : list (Z * Z)) (l : gsm S),
    terminal_last acts = true ->
    match apply_modes nmodes acts (g_mode l, g_stack l) with
    | Some (m', st') =>
      g_actions S start nmodes acts l =
      match first_terminal acts with
      | Some (ty, p1) =>
        GReturn S (term_code ty)
          (at_start S start
             {| g_token := g_token l; g_state := g_state l; g_fresh := g_fresh l;
                g_accum := g_accum l; g_mode := m'; g_stack := st' |}
             (term_code ty) (if ty =? 3 then p1 else g_token l))
      | None =>
        GFall S {| g_token := g_token l; g_state := g_state l; g_fresh := g_fresh l;
                   g_accum := g_accum l; g_mode := m'; g_stack := st' |}
      end
    | None =>
      g_actions S start nmodes acts l = GCrash S \/
      (exists l', g_actions S start nmodes acts l = GReturn S lexError l')
    end.
Proof. exact actions_all_effective. Qed.
Print Assumptions C07_actions_all_effective.

(* after a pop the lexer is in the mode that was current before the matching
   push, for arbitrary nesting and re-entry in between *)
Theorem C07_push_pop_restores :
  forall (nmodes : nat) (p q : Z) (mid : list (Z * Z)) (m : nat) (st : list nat) (r : nat * list nat),
    balanced mid ->
    apply_modes nmodes ((1, p) :: mid ++ [(2, q)]) (m, st) = Some r -> r = (m, st).
Proof. exact push_pop_restores. Qed.
Print Assumptions C07_push_pop_restores.

Theorem C07_balanced_restores :
  forall (nmodes : nat) (a : list (Z * Z)), balanced a ->
    forall ms r, apply_modes nmodes a ms = Some r -> r = ms.
Proof. exact balanced_restores. Qed.
Print Assumptions C07_balanced_restores.
