(* C03 — actions run as the unique bottom-up derivation; sugar yields the
   documented values.  Statements only. *)
From Coq Require Import List ZArith Bool.
From Lox Require Import Parse.Grammar Parse.Tables Parse.ParseRuntime Parse.Validator Parse.Actions
  Parse.Refine Parse.Complete Parse.Sound Parse.Sugar.
Import ListNotations.

(* For every parse tree t of the input: the parser accepts, leaves eval t on
   its stack, and its _act calls are exactly the post-order of t (one per node,
   children first, left to right), each user action receiving the values of
   its children in production order (eval's definition + C03_user_value). *)
Theorem C03_reductions_are_postorder :
  forall g tb c nterm eb discard, validate g tb c nterm = true ->
    forall w X t, ordinary nterm w -> start_sym g = Some X -> wt g X t (tokens_of w) ->
      exists fuel s top bot,
        parse tb eb false discard fuel (zs w) = Accept s /\
        stack s = [top; bot] /\
        i_sym top = eval tb discard t /\
        filter (fun e => match e with ERed _ _ => true | EBounds _ _ _ => false end) (rev (trace s))
          = reductions tb discard t.
Proof. exact parse_complete_values. Qed.
Print Assumptions C03_reductions_are_postorder.

(* the derivation tree of a sentence is unique *)
Theorem C03_tree_unique :
  forall g tb c nterm, validate g tb c nterm = true ->
    forall w X t1 t2, ordinary nterm w -> start_sym g = Some X ->
      wt g X t1 (tokens_of w) -> wt g X t2 (tokens_of w) -> t1 = t2.
Proof. exact tree_unique. Qed.
Print Assumptions C03_tree_unique.

Theorem C03_user_value :
  forall tb discard p ch, kind_of tb p = KUser ->
    eval tb discard (Node p ch) = VNode (Z.of_nat p) (map (eval tb discard) ch).
Proof. exact user_value. Qed.
Print Assumptions C03_user_value.

(* x+ : every element, in input order *)
Theorem C03_plus_value :
  forall tb discard p1 p2 elems t, kind_of tb p1 = KOneOrMore -> kind_of tb p2 = KOneOrMore ->
    spine p1 p2 elems t -> eval tb discard t = VList (map (eval tb discard) elems).
Proof. exact plus_value. Qed.
Print Assumptions C03_plus_value.
Theorem C03_elements_in_input_order :
  forall p1 p2 elems t, spine p1 p2 elems t -> yield t = flat_map yield elems.
Proof. exact yield_of_spine. Qed.
Print Assumptions C03_elements_in_input_order.

(* x*! / x+! : the elements whose Discard() is false *)
Theorem C03_plus_f_value :
  forall tb discard p1 p2 elems t, kind_of tb p1 = KOneOrMoreF -> kind_of tb p2 = KOneOrMoreF ->
    spine p1 p2 elems t ->
    eval tb discard t = VList (filter (keep discard) (map (eval tb discard) elems)).
Proof. exact plus_f_value. Qed.
Print Assumptions C03_plus_f_value.

(* @list(x, sep) : the elements without the separators *)
Theorem C03_list_value :
  forall tb discard p1 p2 elems all t, kind_of tb p1 = KList -> kind_of tb p2 = KList ->
    spine_sep p1 p2 elems all t -> eval tb discard t = VList (map (eval tb discard) elems).
Proof. exact list_value. Qed.
Print Assumptions C03_list_value.

(* x? : the child's value or the zero value *)
Theorem C03_opt_value :
  forall tb discard p1 p2 e, kind_of tb p1 = KZeroOrOne -> kind_of tb p2 = KZeroOrOne ->
    eval tb discard (Node p1 [e]) = eval tb discard e /\ eval tb discard (Node p2 []) = VZero.
Proof. exact opt_value. Qed.
Print Assumptions C03_opt_value.

(* x* : the x+ list, or empty for none *)
Theorem C03_star_elems :
  forall tb discard p1 q1 q2 elems t, kind_of tb p1 = KZeroOrMore ->
    kind_of tb q1 = KOneOrMore -> kind_of tb q2 = KOneOrMore -> spine q1 q2 elems t ->
    as_list (eval tb discard (Node p1 [t])) = map (eval tb discard) elems.
Proof. exact star_elems. Qed.
Print Assumptions C03_star_elems.
Theorem C03_star_f_elems :
  forall tb discard p1 q1 q2 elems t, kind_of tb p1 = KZeroOrMore ->
    kind_of tb q1 = KOneOrMoreF -> kind_of tb q2 = KOneOrMoreF -> spine q1 q2 elems t ->
    as_list (eval tb discard (Node p1 [t])) = filter (keep discard) (map (eval tb discard) elems).
Proof. exact star_f_elems. Qed.
Print Assumptions C03_star_f_elems.
Theorem C03_star_empty :
  forall tb discard p2, kind_of tb p2 = KZeroOrMore -> as_list (eval tb discard (Node p2 [])) = [].
Proof. exact star_empty. Qed.
Print Assumptions C03_star_empty.
