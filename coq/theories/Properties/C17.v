(* C17 — ill-formed specifications are rejected at the right place; valid ones
   pass.  Statements only.  [analyze] (Gen/Analyze.v) mirrors lox's four
   semantic passes on an abstract specification and is compared with the real
   tool on every run (verdict, diagnostic kind, blamed declaration). *)
From Coq Require Import List Bool.
From Lox Require Import Gen.Analyze Gen.AnalyzeProofs Gen.AnalyzeBlame Gen.AnalyzeExamples.
Import ListNotations.

(* well-formed specifications are never rejected *)
Theorem C17_analyze_sound_for_wf : forall s, well_formed s = true -> analyze s = [].
Proof. exact analyze_sound_for_wf. Qed.
Print Assumptions C17_analyze_sound_for_wf.

(* what lox accepts is exactly the weaker predicate (four clauses of the
   property are not enforced by the pinned tree, see the refutations) *)
Theorem C17_analyze_accepts_iff : forall s, analyze s = [] <-> well_formed_weak s = true.
Proof. exact analyze_accepts_iff. Qed.
Print Assumptions C17_analyze_accepts_iff.

(* every diagnostic with a position names a declaration that has a fault of that kind *)
Theorem C17_reject_points_into_fault :
  forall s k oi, In (k, oi) (analyze s) ->
    (k = KStartUndefined /\ oi = None) \/ (exists i, oi = Some i /\ fault_in s k i).
Proof. exact reject_points_into_fault. Qed.
Print Assumptions C17_reject_points_into_fault.

(* the full property fails on the mirror of the pinned tree: witnesses *)
Theorem C17_reversed_range_refuted :
  analyze spec_reversed_range = [] /\ well_formed spec_reversed_range = false.
Proof. exact reversed_range_refuted. Qed.
Print Assumptions C17_reversed_range_refuted.
Theorem C17_unused_macro_cycle_refuted :
  analyze spec_unused_cycle = [] /\ well_formed spec_unused_cycle = false.
Proof. exact unused_macro_cycle_refuted. Qed.
Print Assumptions C17_unused_macro_cycle_refuted.
Theorem C17_empty_alias_refuted :
  analyze spec_empty_alias = [] /\ well_formed spec_empty_alias = false.
Proof. exact empty_alias_refuted. Qed.
Print Assumptions C17_empty_alias_refuted.
