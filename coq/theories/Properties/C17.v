(* C17 — ill-formed specifications are rejected at the right place; valid ones
   pass.  Statements only.  [analyze] (Gen/Analyze.v) mirrors lox's four
   semantic passes on an abstract specification and is compared with the real
   tool on every run (verdict, diagnostic kind, blamed declaration). *)
From Coq Require Import List Bool.
From Lox Require Import Gen.Analyze Gen.AnalyzeProofs Gen.AnalyzeBlame Gen.AnalyzeExamples.
Import ListNotations.

(* well-formed specifications are never rejected *)
Theorem C17_analyze_sound_for_wf : forall s, well_formed s = true -> analyze s = [].
Proof. exact analyze_sound_for_wf. Qed.
Print Assumptions C17_analyze_sound_for_wf.

(* what lox accepts is exactly the weaker predicate (four clauses of the
   property are not enforced by the pinned tree, see the refutations) *)
Theorem C17_analyze_accepts_iff : forall s, analyze s = [] <-> well_formed_weak s = true.
Proof. exact analyze_accepts_iff. Qed.
Print Assumptions C17_analyze_accepts_iff.

(* every diagnostic with a position names a declaration that has a fault of that kind *)
Theorem C17_reject_points_into_fault :
  forall s k oi, In (k, oi) (analyze s) ->
    (k = KStartUndefined /\ oi = None) \/ (exists i, oi = Some i /\ fault_in s k i).
Proof. exact reject_points_into_fault. Qed.
Print Assumptions C17_reject_points_into_fault.

(* three clauses of the property were not enforced by the pinned tree; after the
   fix: commits the mirror rejects those specifications with the right diagnostic *)
Theorem C17_reversed_range_rejected :
  analyze spec_reversed_range = [(KBadRange, Some 1)] /\ well_formed spec_reversed_range = false.
Proof. exact reversed_range_rejected. Qed.
Print Assumptions C17_reversed_range_rejected.
Theorem C17_unused_macro_cycle_rejected :
  analyze spec_unused_cycle = [(KMacroCycle, Some 2)] /\ well_formed spec_unused_cycle = false.
Proof. exact unused_macro_cycle_rejected. Qed.
Print Assumptions C17_unused_macro_cycle_rejected.
Theorem C17_empty_alias_rejected :
  analyze spec_empty_alias = [(KEmptyLiteral, Some 2)] /\ well_formed spec_empty_alias = false.
Proof. exact empty_alias_rejected. Qed.
Print Assumptions C17_empty_alias_rejected.

(* what remains: lox accepts exactly the well-formed specifications as soon as
   parser rule names have the documented shape (a name such as a__b is accepted
   although it can never be bound to an action) *)
Theorem C17_analyze_rejects_iff_modulo_rule_names :
  forall s, wf_rule_names s = true -> (analyze s = [] <-> well_formed s = true).
Proof. exact analyze_rejects_iff_modulo_rule_names. Qed.
Print Assumptions C17_analyze_rejects_iff_modulo_rule_names.
