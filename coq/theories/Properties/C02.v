(* C02 — the lexer emits the longest viable match; the earliest declared rule wins.
   Statements only.  Chain of reasoning decided per specification:
     emitted arrays --(modes_wf, closed: evaluated by the harness on the arrays
     read back from lexer.gen.go)--> equal, on every input, to the reference
     driver over the derivative automaton of the rules (C02_equiv_lex), whose
     single steps are characterised against the declarative semantics
     (C02_ref_consumes_longest_viable). *)
From Coq Require Import List ZArith Bool.
From Lox Require Import Lex.LexRuntime Lex.LexAuto Lex.LexEquiv Lex.RegexRef
  Lex.LexLookupProofs Lex.LexDecodeProofs Lex.LexEquivProofs Lex.RegexProofs Lex.RegexProofs2
  Lex.Utf8Model Lex.Utf8Proofs Lex.Utf8Lex.
Import ListNotations.
Open Scope Z_scope.

(* a closed product exploration makes the emitted tables and the reference equal on ALL inputs *)
Theorem C02_equiv_lex :
  forall (R : Type) (reqb : R -> R -> bool) (modes : list (list Z))
         (RA : nat -> R -> option (view R)) (rstart : nat -> R) (visited : list (pair R)),
    (forall a b, reqb a b = true <-> a = b) ->
    closed R reqb modes RA rstart visited = true ->
    modes_wf modes = true ->
    forall fuel inp,
      (forall r w, In (r, w) inp -> 0 <= r <= 1114111) ->
      lex_tables modes fuel inp = g_lex R RA rstart (length modes) fuel inp.
Proof. exact equiv_lex. Qed.
Print Assumptions C02_equiv_lex.

(* the instance used: states are derivative vectors, equality test reflects equality *)
Theorem C02_st_eqb_eq : forall a b, st_eqb a b = true <-> a = b.
Proof. exact st_eqb_eq. Qed.
Print Assumptions C02_st_eqb_eq.

(* derivatives are correct for the regular-expression semantics *)
Theorem C02_deriv_correct : forall r c w, matches (deriv c r) w <-> matches r (c :: w).
Proof. exact deriv_correct. Qed.
Print Assumptions C02_deriv_correct.
Theorem C02_nullable_correct : forall r, nullable r = true <-> matches r [].
Proof. exact nullable_correct. Qed.
Print Assumptions C02_nullable_correct.
Theorem C02_is_empty_correct : forall r, clean r -> (is_empty r = true <-> forall w, ~ matches r w).
Proof. exact is_empty_correct. Qed.
Print Assumptions C02_is_empty_correct.

(* a prefix is viable (still a prefix of some match of the mode) iff the state is not dead *)
Theorem C02_der_viable : forall rules u, wf_rules rules ->
  (forallb is_empty (der rules u) = false <-> viable rules u).
Proof. exact der_viable. Qed.
Print Assumptions C02_der_viable.

(* the label of a state is the earliest-declared rule matching exactly the text read *)
Theorem C02_der_label : forall rules u i,
  first_null (der rules u) = Some i <-> exists r, earliest rules u i r.
Proof. exact der_label. Qed.
Print Assumptions C02_der_label.

(* from a token boundary the reference consumes exactly the longest viable
   prefix u of the input, then acts as the earliest rule matching u (error/EOF
   if none); every prefix is consumed iff it is viable *)
Theorem C02_ref_consumes_longest_viable :
  forall (modes : list (list rule)) (m : nat) (s u rest : list Z) (l0 : gsm (list re)) (acts : list (Z * Z)),
    wf_rules (nth m modes []) -> greedy (nth m modes []) -> Forall in_unicode s ->
    in_state modes m l0 [] -> s = u ++ rest -> viable (nth m modes []) u ->
    (forall c rest', rest = c :: rest' -> ~ viable (nth m modes []) (u ++ [c])) ->
    sel_acts (nth m modes []) u acts ->
    exists l1,
      consume_all modes l0 u = Some l1 /\ in_state modes m l1 u /\
      g_token l1 = g_token l0 /\ g_stack l1 = g_stack l0 /\ g_accum l1 = g_accum l0 /\
      push modes l1 (next_char rest) = stuck_result modes acts l1 (next_char rest) /\
      (u <> [] -> push modes l1 (next_char rest) = act_result modes acts l1) /\
      (u = [] -> l1 = l0 /\
         push modes l1 (next_char rest) =
           Some (if (next_char rest =? -1) && negb (g_accum l0) then lexEOF else lexError, l0)) /\
      (forall code l2, push modes l1 (next_char rest) = Some (code, l2) -> code <> lexConsume) /\
      (forall u' rest', s = u' ++ rest' -> ((exists l', consume_all modes l0 u' = Some l') <-> viable (nth m modes []) u')).
Proof. exact ref_consumes_longest_viable. Qed.
Print Assumptions C02_ref_consumes_longest_viable.

(* the raw PushRune over the arrays (binary search, action loop) is the view machine *)
Theorem C02_decode_lex : forall modes fuel inp, modes_wf modes = true ->
  lex_tables modes fuel inp = g_lex Z (table_auto modes) (fun _ => 0) (length modes) fuel inp.
Proof. exact decode_lex. Qed.
Print Assumptions C02_decode_lex.

(* ---- the input as BYTES: valid, invalid and truncated UTF-8 ----
   The driver's rune reader (bytes.Reader.ReadRune = utf8.DecodeRune on the
   unread suffix) is mirrored by Utf8Model.decode_all and compared with Go on
   every input the harness lexes. *)

(* every byte string decodes; the widths add up to the number of bytes and every
   code point handed to the state machine is a Unicode scalar value *)
Theorem C02_decode_all_total : forall bs,
  sum_widths (decode_all bs) = Z.of_nat (length bs) /\
  Forall (fun r => 0 <= r <= 1114111 /\ ~ (55296 <= r <= 57343)) (runes_of (decode_all bs)).
Proof. exact decode_all_total_gen. Qed.
Print Assumptions C02_decode_all_total.

(* a well-formed encoding decodes to its code point and its length ... *)
Theorem C02_decode_encode : forall r rest,
  0 <= r <= 1114111 -> ~ (55296 <= r <= 57343) ->
  decode_rune (encode_rune r ++ rest) = Some (r, Z.of_nat (length (encode_rune r)), rest).
Proof. exact decode_encode. Qed.
Print Assumptions C02_decode_encode.

(* ... and anything else is U+FFFD of width 1 (one byte skipped), nothing else *)
Theorem C02_decode_valid_or_replacement : forall bs r w rest,
  decode_rune bs = Some (r, w, rest) ->
  (r = RuneError /\ w = 1 /\ rest = tl bs /\ ~ valid_prefix bs) \/
  (scalar r /\ bs = encode_rune r ++ rest /\ w = Z.of_nat (length (encode_rune r))).
Proof. exact decode_valid_or_replacement. Qed.
Print Assumptions C02_decode_valid_or_replacement.

(* hence the equivalence with the reference holds on ALL byte strings, with no
   side condition on the input left *)
Theorem C02_equiv_lex_bytes :
  forall (R : Type) (reqb : R -> R -> bool) (modes : list (list Z))
         (RA : nat -> R -> option (view R)) (rstart : nat -> R) (visited : list (pair R)),
    (forall a b, reqb a b = true <-> a = b) ->
    closed R reqb modes RA rstart visited = true ->
    modes_wf modes = true ->
    forall fuel bs,
      lex_bytes modes fuel bs = g_lex R RA rstart (length modes) fuel (decode_all bs).
Proof. exact lex_bytes_equiv. Qed.
Print Assumptions C02_equiv_lex_bytes.
