(* C06 — type-matched action binding: exact verdict, values flow.  Statements
   only.  [assign_actions] (Gen/Binding.v) mirrors codegen.AssignActions over an
   oracle for go/types (identity, assignability, slices, interfaces), which is
   computed with go/types by the harness for every generated package. *)
From Coq Require Import List Bool Arith.
From Lox Require Import Gen.Binding Gen.BindingProofs Gen.BindingVerdict Gen.BindingComplete.
Import ListNotations.

Theorem C06_binding_verdict_exact :
  forall o tok err rules prods ms,
    wf_input rules prods ms = true ->
    (forall a, identical o a a = true) ->
    (forall a b, identical o a b = true -> identical o b a = true) ->
    (forall a b c, identical o a b = true -> identical o b c = true -> identical o a c = true) ->
    shape_ok rules prods ms ->
    ((exists b rtl, assign_actions o tok err rules prods ms = BOk b rtl) <->
     binding_ok o tok err rules prods ms).
Proof. exact binding_verdict_exact. Qed.
Print Assumptions C06_binding_verdict_exact.

Theorem C06_diagnostic_names_culprit :
  forall o tok err rules prods ms ds,
    assign_actions o tok err rules prods ms = BErr ds ->
    ds <> [] /\ (forall d, In d ds -> culprit_ok o tok err rules prods ms d).
Proof. exact diagnostic_names_culprit. Qed.
Print Assumptions C06_diagnostic_names_culprit.

(* values flow: casting to a type identical to the value's, or to an interface it implements, delivers it *)
Theorem C06_cast_delivers_when_identical :
  forall o T t x, is_interface o T = false -> identical o t T = true -> cast o T (DVal t x) = DVal t x.
Proof. exact cast_delivers_when_identical. Qed.
Print Assumptions C06_cast_delivers_when_identical.
Theorem C06_cast_interface_delivers :
  forall o T t x, is_interface o T = true -> implements o t T = true -> cast o T (DVal t x) = DVal t x.
Proof. exact cast_interface_delivers. Qed.
Print Assumptions C06_cast_interface_delivers.

(* values flow: for every accepted binding, every action parameter holds exactly
   the value produced for its term (the repaired template asserts the TERM's type
   and lets the call convert) *)
Theorem C06_values_flow :
  forall o tok err rules prods ms b rtl,
    assign_actions o tok err rules prods ms = BOk b rtl ->
    forall pi p, nth_error prods pi = Some p -> kind_of rules (bp_rule p) = NotGenerated ->
      exists m, In m ms /\ In (pi, m_id m) b /\ accepts o tok err rtl m p /\
        (forall vs, Forall2 (produced_for o tok err rtl) (bp_terms p) vs ->
           length vs = length (m_params m) /\ action_args o tok err rtl (bp_terms p) vs = vs).
Proof. exact values_flow. Qed.
Print Assumptions C06_values_flow.

(* the template of the pinned tree asserted the PARAMETER type: a term type that
   is assignable but not identical to a non-interface parameter type yielded the
   zero value (witness kept; repaired by a fix: commit) *)
Theorem C06_cast_zero_refuted :
  assign_actions ex_o 10 11 ex_rules ex_prods [ex_on_s; ex_on_x] =
    BOk [(1, 0); (2, 1)] [(1, 0); (2, 0); (3, 1)] /\
  assignable ex_o 1 (nth 0 (m_params ex_on_s) 0) = true /\
  is_interface ex_o 2 = false /\ identical ex_o 1 2 = false /\
  (forall x, param_value_old ex_o ex_on_s 0 (DVal 1 x) = DZero 2) /\
  (forall x, param_value ex_o 1 (DVal 1 x) = DVal 1 x) /\
  (forall x, action_args ex_o 10 11 [(1, 0); (2, 0); (3, 1)] [(false, 3)] [DVal 1 x] = [DVal 1 x]).
Proof. exact cast_zero_refuted. Qed.
Print Assumptions C06_cast_zero_refuted.
Theorem C06_cast_to_term_type_delivers :
  forall o S v, wf_dyn o v -> has_static_type o S v = true -> cast o S v = v.
Proof. exact cast_to_term_type_delivers. Qed.
Print Assumptions C06_cast_to_term_type_delivers.
