(* C08 — non-greedy repetitions stop at the first complete match.  Statements only. *)
From Coq Require Import List ZArith Bool.
From Lox Require Import Lex.LexRuntime Lex.LexAuto Lex.RegexRef Lex.RegexProofs Lex.RegexProofs2 Lex.RegexProofs3.
Import ListNotations.
Open Scope Z_scope.

(* as soon as a marked (non-greedy-shaped) rule matches the text read so far,
   the reference machine consumes nothing more, whatever comes next: it acts as
   the earliest rule matching that text *)
Theorem C08_ref_step_ng :
  forall (modes : list (list rule)) (m : nat) (u : list Z) (c : Z) (l : gsm (list re)) (acts : list (Z * Z)),
    in_state modes m l u -> ng_match (nth m modes []) u -> sel_acts (nth m modes []) u acts ->
    push modes l c = stuck_result modes acts l c.
Proof. exact ref_step_ng. Qed.
Print Assumptions C08_ref_step_ng.

(* until then it behaves greedily (the longest-match step of C02) *)
Theorem C08_ref_step_consume :
  forall (modes : list (list rule)) (m : nat) (u : list Z) (c : Z) (l : gsm (list re)),
    wf_rules (nth m modes []) -> in_state modes m l u -> ~ ng_match (nth m modes []) u ->
    in_unicode c -> viable (nth m modes []) (u ++ [c]) ->
    push modes l c =
      Some (lexConsume, {| g_token := g_token l; g_state := der (nth m modes []) (u ++ [c]);
                           g_fresh := false; g_accum := g_accum l; g_mode := m; g_stack := g_stack l |}).
Proof. exact ref_step_consume. Qed.
Print Assumptions C08_ref_step_consume.

(* the shortest match of prefix . body*? . terminator ends at the first
   occurrence of the terminator after the prefix, even when the body can match
   the terminator's own characters *)
Theorem C08_first_occurrence_is_shortest_match :
  forall P bs t n s u rest,
    fixed_len P n -> s = u ++ rest -> matches (ng_shape P bs (lit t)) u ->
    (forall u' rest', s = u' ++ rest' -> matches (ng_shape P bs (lit t)) u' -> (length u <= length u')%nat) ->
    exists p mid, u = p ++ mid ++ t /\ length p = n /\ matches P p /\ Forall (in_B bs) mid /\
      (forall p' mid' rest', s = p' ++ mid' ++ t ++ rest' -> length p' = n ->
         Forall (in_B bs) mid' -> (length mid <= length mid')%nat).
Proof. exact first_occurrence_is_shortest_match. Qed.
Print Assumptions C08_first_occurrence_is_shortest_match.

Theorem C08_ng_shape_suffix :
  forall P bs t u, matches (ng_shape P bs (lit t)) u -> exists pre, u = pre ++ t.
Proof. exact ng_shape_suffix. Qed.
Print Assumptions C08_ng_shape_suffix.
