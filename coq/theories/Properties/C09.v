(* C09 — syntax errors: never panic, never accept silently, blame the right
   token.  Statements only; rec_enabled = true is the generated parser as it
   ships.  Termination is proved (C09_parse_terminates) for every table set
   that passes the validator and the boolean termination condition term_ok
   (Parse/TermCheck.v), which the harness evaluates on every emitted table. *)
From Coq Require Import List ZArith Bool.
From Lox Require Import Parse.Grammar Parse.Tables Parse.ParseRuntime Parse.Validator Parse.Actions
  Parse.Refine Parse.Recovery Parse.RecoveryFacts Parse.RecoverySound Parse.RecoveryBlame Parse.RecoveryAgree
  Parse.RecoveryProgress Parse.TermCheck Parse.TermProofs.
Import ListNotations.

(* no panic, for every validated table set and every token sequence, lexer ERROR tokens included *)
Theorem C09_parse_never_crashes :
  forall g tb c nterm eb discard, validate g tb c nterm = true ->
    forall w fuel, tokens1 nterm w -> parse tb eb true discard fuel (zs w) <> Crash.
Proof. exact parse_never_crashes. Qed.
Print Assumptions C09_parse_never_crashes.

(* when parse() returns true, the symbols it kept (input tokens in order, with
   stretches replaced by @error) form a sentence *)
Theorem C09_accept_is_sentence_with_errors :
  forall g tb c nterm eb discard, validate g tb c nterm = true ->
    forall w fuel s, tokens1 nterm w -> parse tb eb true discard fuel (zs w) = Accept s ->
      exists u X t toks, err_subst w u /\ start_sym g = Some X /\ wt g X t toks /\ map fst toks = u.
Proof. exact accept_is_sentence_with_errors. Qed.
Print Assumptions C09_accept_is_sentence_with_errors.

(* a non-sentence is rejected, or an @error production was reduced *)
Theorem C09_nonsentence_reports :
  forall g tb c nterm eb discard, validate g tb c nterm = true ->
    start_sym g <> Some (T error_t) ->
    forall w fuel s, ordinary nterm w -> parse tb eb true discard fuel (zs w) = Accept s ->
      (exists p pr res, In (ERed (Z.of_nat p) res) (trace s) /\ nth_error g p = Some pr /\ In (T error_t) (rhs pr))
      \/ sentence g (tokens_of w).
Proof. exact nonsentence_reports. Qed.
Print Assumptions C09_nonsentence_reports.

(* the token at which the first error is detected really is one at which the
   input stops being a prefix of a sentence ... *)
Theorem C09_blame_not_viable :
  forall g tb c nterm eb discard, validate g tb c nterm = true ->
    forall w fuel s, ordinary nterm w -> parse tb eb false discard fuel (zs w) = Reject s ->
      (la s <> 0%Z -> ~ viable_prefix g (firstn (pos s) w)) /\
      (la s = 0%Z -> ~ sentence g (tokens_of w)).
Proof. exact blame_not_viable. Qed.
Print Assumptions C09_blame_not_viable.

(* ... the recovering parser replays the clean run up to that point, calls
   _recover there, and the Error built carries exactly that lookahead token *)
Theorem C09_first_error_is_blame :
  forall g tb c nterm eb discard, validate g tb c nterm = true ->
    forall w fuel s, ordinary nterm w -> parse tb eb false discard fuel (zs w) = Reject s ->
      (exists n, forall k,
         parse tb eb true discard (n + S k) (zs w) =
         match recover tb (S k) s with
         | Continue s' => ploop tb eb true discard k s'
         | Accept s0 => Accept s0 | Reject s0 => Reject s0 | Crash => Crash | Fuel => Fuel
         end) /\
      (exists id ks, lasym s = VTok (la s) id /\ recover_errsym tb s = Some (VErr (VTok (la s) id) ks)) /\
      (* nothing is dropped by the progress rule at the first recovery of a run *)
      rec_shifts s = (-1)%Z /\ (0 <= shifts s)%Z /\
      (forall f, recover tb f s =
         match recover_errsym tb s with
         | Some e => match skip_errors tb f s with
                     | Continue s1 => recover_outer tb f e s1
                     | Accept s0 => Accept s0 | Reject s0 => Reject s0 | Crash => Crash | Fuel => Fuel
                     end
         | None => Crash
         end).
Proof. exact first_error_is_blame. Qed.
Print Assumptions C09_first_error_is_blame.

(* the Error handed on by _recover is the one of this detection, or an earlier
   Error that was still waiting on the stack (beginning of the replaced stretch) *)
Theorem C09_recover_reports :
  forall tb f s s1, recover tb f s = Continue s1 ->
    exists e0, recover_errsym tb s = Some e0 /\ la s1 = ERROR /\
      (lasym s1 = e0 \/ exists it, In it (stack s) /\ i_sym it = lasym s1 /\ is_verr (lasym s1)).
Proof. exact recover_reports. Qed.
Print Assumptions C09_recover_reports.

(* a parse that needs no recovery is the same with recovery enabled, and conversely *)
Theorem C09_clean_run_agrees :
  forall tb eb discard w fuel s,
    parse tb eb false discard fuel (zs w) = Accept s -> parse tb eb true discard fuel (zs w) = Accept s.
Proof. exact clean_run_agrees. Qed.
Print Assumptions C09_clean_run_agrees.

(* outcomes are stable under more fuel: "returns" is well defined *)
Theorem C09_parse_fuel_monotone :
  forall tb eb discard rec f1 f2 zw o, f1 <= f2 -> o <> Fuel ->
    parse tb eb rec discard f1 zw = o -> parse tb eb rec discard f2 zw = o.
Proof. exact parse_fuel_monotone_rec. Qed.
Print Assumptions C09_parse_fuel_monotone.

(* error recovery makes progress: along a run on w the parser enters _recover at
   most 2*|w|+2 times (each recovery is preceded by a real shift or drops a
   token).  Together with finiteness of reduction chains under one lookahead
   (not proved) this is termination. *)
Theorem C09_recoveries_make_progress :
  forall g tb c nterm eb discard, validate g tb c nterm = true ->
    forall w, tokens1 nterm w -> forall fuel s0,
      read_token tb (init_state (zs w)) = Some s0 ->
      nrec tb eb discard fuel s0 <= 2 * length w + 2.
Proof. exact recoveries_make_progress. Qed.
Print Assumptions C09_recoveries_make_progress.

(* EVERY RUN TERMINATES, with or without error recovery, on every token
   sequence (lexer ERROR tokens included): for tables that pass the validator
   and term_ok there is a fuel for which the model of parse() returns (accepts,
   rejects, or - excluded by C09_parse_never_crashes - panics); by
   C09_parse_fuel_monotone the answer is then the same for every larger fuel *)
Theorem C09_parse_terminates :
  forall g tb c nterm eb discard F,
    validate g tb c nterm = true ->
    term_ok tb (nstates c) F = true ->
    forall rec w, tokens1 nterm w ->
      exists fuel, parse tb eb rec discard fuel (zs w) <> Fuel.
Proof. exact parse_terminates. Qed.
Print Assumptions C09_parse_terminates.

(* the bound behind it: between two shifts the parser makes fewer than
   height * (F+1) reductions *)
Theorem C09_reduce_chain_bounded :
  forall g tb c nterm eb rec discard F,
    validate g tb c nterm = true -> term_ok tb (nstates c) F = true ->
    forall s n s', zpath g tb c (map i_state (stack s)) ->
      reduce_run tb eb discard rec n s s' -> n < length (stack s) * (F + 1).
Proof. exact reduce_chain_bounded. Qed.
Print Assumptions C09_reduce_chain_bounded.

(* term_ok is not vacuous: it holds of a real table set and fails on tables with a reduce cycle *)
Theorem C09_term_ok_examples :
  term_ok tb_small (nstates c_small) (term_fuel tb_small (nstates c_small)) = true /\
  term_ok tb_cycle 2 1000 = false.
Proof. split; vm_compute; reflexivity. Qed.
Print Assumptions C09_term_ok_examples.
