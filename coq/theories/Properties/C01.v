(* C01 — the generated parser accepts exactly the language of the grammar.
   Statements only.  [parse] (Parse/ParseRuntime.v) is the exact model of the
   generated parse() over the emitted integer arrays; [validate]
   (Parse/Validator.v) is the boolean check that the harness runs on the arrays
   of every generated and every shipped grammar.  rec_enabled = false is the
   "without running any @error production" reading: a parse that never needs
   recovery (C09_clean_run_agrees relates it to the parser with recovery). *)
From Coq Require Import List ZArith Bool.
From Lox Require Import Parse.Grammar Parse.Tables Parse.ParseRuntime Parse.Validator Parse.Actions
  Parse.Refine Parse.Complete Parse.Sound.
Import ListNotations.

Theorem C01_parse_exact :
  forall (g : grammar) (tb : tables) (c : cert) (nterm : nat) (eb : bool) (discard : value -> bool),
    validate g tb c nterm = true ->
    forall w : list nat, ordinary nterm w ->
      (exists (fuel : nat) (s : pstate), parse tb eb false discard fuel (zs w) = Accept s) <->
      sentence g (tokens_of w).
Proof. exact parse_exact. Qed.
Print Assumptions C01_parse_exact.

(* no sentence is rejected *)
Theorem C01_parse_complete :
  forall g tb c nterm eb discard, validate g tb c nterm = true ->
    forall w, ordinary nterm w -> sentence g (tokens_of w) ->
      exists fuel s, parse tb eb false discard fuel (zs w) = Accept s.
Proof. exact parse_complete. Qed.
Print Assumptions C01_parse_complete.

(* no non-sentence is accepted *)
Theorem C01_parse_sound :
  forall g tb c nterm eb discard, validate g tb c nterm = true ->
    forall w fuel s, ordinary nterm w ->
      parse tb eb false discard fuel (zs w) = Accept s -> sentence g (tokens_of w).
Proof. exact parse_sound. Qed.
Print Assumptions C01_parse_sound.

(* the three Go panics of the loop (index out of range, pop below empty, peek on empty) never happen *)
Theorem C01_parse_no_crash :
  forall g tb c nterm eb discard, validate g tb c nterm = true ->
    forall w fuel, ordinary nterm w -> parse tb eb false discard fuel (zs w) <> Crash.
Proof. exact parse_no_crash. Qed.
Print Assumptions C01_parse_no_crash.

(* "exists fuel" is meaningful: an accepting run stays accepting with more fuel *)
Theorem C01_parse_fuel_monotone :
  forall tb eb discard w f1 f2 s, f1 <= f2 ->
    parse tb eb false discard f1 (zs w) = Accept s -> parse tb eb false discard f2 (zs w) = Accept s.
Proof. exact parse_fuel_monotone. Qed.
Print Assumptions C01_parse_fuel_monotone.
