(* C01 — the generated parser accepts exactly the language of the grammar.
   Statements only.  [parse] (Parse/ParseRuntime.v) is the exact model of the
   generated parse() over the emitted integer arrays; [validate]
   (Parse/Validator.v) is the boolean check that the harness runs on the arrays
   of every generated and every shipped grammar.  rec_enabled = false is the
   "without running any @error production" reading: a parse that never needs
   recovery (C09_clean_run_agrees relates it to the parser with recovery). *)
From Coq Require Import List ZArith Bool.
From Lox Require Import Parse.Grammar Parse.Tables Parse.ParseRuntime Parse.Validator Parse.Actions
  Parse.Refine Parse.Complete Parse.Sound.
Import ListNotations.

Theorem C01_parse_exact :
  forall (g : grammar) (tb : tables) (c : cert) (nterm : nat) (eb : bool) (discard : value -> bool),
    validate g tb c nterm = true ->
    forall w : list nat, ordinary nterm w ->
      (exists (fuel : nat) (s : pstate), parse tb eb false discard fuel (zs w) = Accept s) <->
      sentence g (tokens_of w).
Proof. exact parse_exact. Qed.
Print Assumptions C01_parse_exact.

(* no sentence is rejected *)
Theorem C01_parse_complete :
  forall g tb c nterm eb discard, validate g tb c nterm = true ->
    forall w, ordinary nterm w -> sentence g (tokens_of w) ->
      exists fuel s, parse tb eb false discard fuel (zs w) = Accept s.
Proof. exact parse_complete. Qed.
Print Assumptions C01_parse_complete.

(* no non-sentence is accepted *)
Theorem C01_parse_sound :
  forall g tb c nterm eb discard, validate g tb c nterm = true ->
    forall w fuel s, ordinary nterm w ->
      parse tb eb false discard fuel (zs w) = Accept s -> sentence g (tokens_of w).
Proof. exact parse_sound. Qed.
Print Assumptions C01_parse_sound.

(* the three Go panics of the loop (index out of range, pop below empty, peek on empty) never happen *)
Theorem C01_parse_no_crash :
  forall g tb c nterm eb discard, validate g tb c nterm = true ->
    forall w fuel, ordinary nterm w -> parse tb eb false discard fuel (zs w) <> Crash.
Proof. exact parse_no_crash. Qed.
Print Assumptions C01_parse_no_crash.

(* "exists fuel" is meaningful: an accepting run stays accepting with more fuel *)
Theorem C01_parse_fuel_monotone :
  forall tb eb discard w f1 f2 s, f1 <= f2 ->
    parse tb eb false discard f1 (zs w) = Accept s -> parse tb eb false discard f2 (zs w) = Accept s.
Proof. exact parse_fuel_monotone. Qed.
Print Assumptions C01_parse_fuel_monotone.

(* ---- cardinality sugar and @list "read as documented" ----
   Gen/NormalizeModel.normalize mirrors the Normalize pass (which helper rules
   and productions it creates, in which order); the harness compares it with
   lox's own production list on every generated grammar.  The documented meaning
   is the inductive [ssentence] over the SUGARED grammar (x? = zero or one,
   x* / x*! = zero or more, x+ = one or more, @list(e,s) = e (s e)*,
   @list(e,s)? = that or nothing).  Together with C01_parse_exact (stated over
   the plain grammar) this gives: parse succeeds cleanly iff the word is a
   sentence of the grammar as the user wrote it. *)
From Lox Require Import Gen.NormalizeModel Gen.NormalizeProofs.

Theorem C01_normalize_sound : forall g w,
  wf_sgrammar g -> sentence (fst (normalize g)) w -> ssentence g w.
Proof. exact normalize_sound. Qed.
Print Assumptions C01_normalize_sound.

Theorem C01_normalize_complete : forall g w,
  wf_sgrammar g -> ssentence g w -> sentence (fst (normalize g)) w.
Proof. exact normalize_complete. Qed.
Print Assumptions C01_normalize_complete.

(* each helper has exactly the two productions of its kind, at the numbers the
   generated code uses *)
Theorem C01_helper_shapes : forall g j k,
  wf_sgrammar g -> nth_error (collect g) j = Some k ->
  let n := length (sg_rules g) in
  let h := n + 1 + j in
  let p1 := 1 + nuser g + 2 * j in
  let G := fst (normalize g) in
  nth_error (snd (normalize g)) j = Some (h, key_kind k) /\
  exists r1 r2,
    nth_error G p1 = Some {| lhs := h; rhs := r1 |} /\
    nth_error G (S p1) = Some {| lhs := h; rhs := r2 |} /\
    (forall p pr, nth_error G p = Some pr -> lhs pr = h -> p = p1 \/ p = S p1) /\
    shape n (collect g) h k r1 r2.
Proof. exact helper_shapes. Qed.
Print Assumptions C01_helper_shapes.

(* ---- parse() DECIDES membership ----
   With the boolean termination condition term_ok (Parse/TermCheck.v, evaluated
   by the harness on every emitted table set) there is a fuel for which the
   model of parse() returns: it accepts exactly the sentences and rejects
   exactly the non-sentences; no input makes it run for ever. *)
From Lox Require Import Parse.TermCheck Parse.TermProofs.

Theorem C01_parse_decides :
  forall g tb c nterm eb discard F,
    validate g tb c nterm = true ->
    term_ok tb (nstates c) F = true ->
    forall w, ordinary nterm w ->
      exists fuel,
        (exists s, parse tb eb false discard fuel (zs w) = Accept s /\ sentence g (tokens_of w)) \/
        (exists s, parse tb eb false discard fuel (zs w) = Reject s /\ ~ sentence g (tokens_of w)).
Proof. exact parse_decides. Qed.
Print Assumptions C01_parse_decides.
