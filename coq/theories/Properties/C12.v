(* C12 — the generator never crashes: the part of the property that is logic.
   "Front-end actions assume the lexer validated their input and panic
   otherwise" (internal/parser/parser.go unescape / hexToRune / fixLiteral):
   the model gives the Go failure an explicit result (UPanic / None), the
   token languages of the Literal and ClassChar modes of parser.lox are the
   automata of Gen/EscapeModel.v, and the theorems say that no token of those
   languages makes the actions panic.  Statements only; proofs are in
   Gen/EscapeProofs.v.  Tie to the code, checked on every run: unescape is
   compared with parser.go on arbitrary byte strings (same panic verdict, same
   bytes), and every LITERAL / CLASS_CHAR token the real front-end lexer emits
   on shipped, generated and damaged sources must satisfy the recognisers.
   Everything else in C12 (go/packages, templates, go/format, files, the
   process) is outside any model and is explored with the real binary. *)
From Coq Require Import List ZArith Bool.
From Lox Require Import Rang3.ClassModel Lex.Utf8Model Gen.EscapeModel Gen.EscapeProofs.
Import ListNotations.
Local Open Scope Z_scope.

(* every text the Literal mode admits between the quotes is decoded without a panic *)
Theorem C12_unescape_literal_ok : forall l, is_literal_body l = true -> exists items, unescape l = UOk items.
Proof. exact unescape_literal_ok. Qed.
Print Assumptions C12_unescape_literal_ok.

(* ... and so is a whole LITERAL token handed to fixLiteral (the slice lit[1:len-1] included) *)
Theorem C12_fix_literal_ok : forall t, is_literal_token t = true -> exists bs, fix_literal t = Some bs.
Proof. exact fix_literal_ok. Qed.
Print Assumptions C12_fix_literal_ok.

(* every CLASS_CHAR token is decoded without a panic and to at least one byte,
   so on_char_class's DecodeRuneInString never sees the empty string *)
Theorem C12_unescape_class_char_ok : forall l, is_class_char l = true ->
  exists items, unescape l = UOk items /\ items <> [].
Proof. exact unescape_class_char_ok. Qed.
Print Assumptions C12_unescape_class_char_ok.

(* text without a backslash is copied byte for byte *)
Theorem C12_unescape_plain_identity : forall l, (forall b, In b l -> b <> 92) ->
  unescape l = UOk (map (fun b => (false, b)) l).
Proof. exact unescape_plain_identity. Qed.
Print Assumptions C12_unescape_plain_identity.

(* the model's fuel is never what ends the loop: the output has at most one item per input byte *)
Theorem C12_unescape_fuel_enough : forall l items, unescape l = UOk items -> (length items <= length l)%nat.
Proof. exact unescape_fuel_enough. Qed.
Print Assumptions C12_unescape_fuel_enough.

(* the hypotheses are needed (outside the token languages unescape does panic) and satisfiable *)
Theorem C12_unescape_panic_witnesses :
  unescape [92; 113] = UPanic /\ unescape [92; 120; 52] = UPanic /\
  unescape [92; 117; 48; 48; 52; 103] = UPanic /\
  is_literal_body [92; 113] = false /\ is_class_char [92; 120; 52] = false.
Proof. exact unescape_panic_witnesses. Qed.
Print Assumptions C12_unescape_panic_witnesses.

Theorem C12_token_languages_nonvacuous :
  is_literal_body [97; 92; 110; 92; 120; 52; 49; 92; 117; 50; 48; 65; 67] = true /\
  is_class_char [92; 85; 48; 48; 48; 49; 70; 54; 48; 48] = true /\
  is_class_char [92] = true /\ is_literal_token [39; 92; 39; 39] = true.
Proof. exact literal_body_nonvacuous. Qed.
Print Assumptions C12_token_languages_nonvacuous.
