(* C13 — output is deterministic: the iteration-order logic.  Statements only.
   Every `range` over a Go map in lox's non-test code is an instance of one of
   these patterns (audit in corpus/map_range_sites.json, re-checked for drift on
   every run); process and file-system behaviour is explored by repeated
   generation, not proved. *)
From Coq Require Import List Bool Permutation.
From Lox Require Import Rang3.RangeModel Gen.MapOrder.
Import ListNotations.

(* collect the entries in any order, then sort by an injective key: one result *)
Theorem C13_sort_of_perm :
  forall (K : Type) (cmp : K -> K -> comparison),
    (forall a b, cmp a b = Eq -> a = b) ->
    (forall a b, cmp a b = CompOpp (cmp b a)) ->
    (forall a b c, cmp a b = Lt -> cmp b c = Lt -> cmp a c = Lt) ->
    forall (E : Type) (key : E -> K) (l l' : list E),
      Permutation l l' -> NoDup (map key l) -> isort K cmp E key l = isort K cmp E key l'.
Proof. exact sort_of_perm. Qed.
Print Assumptions C13_sort_of_perm.

(* loops that only insert into sets / maps with distinct keys or set a flag *)
Theorem C13_fold_commutative_perm :
  forall (A S : Type) (f : A -> S -> S),
    (forall a b s, f a (f b s) = f b (f a s)) ->
    forall l l' s, Permutation l l' ->
      fold_left (fun acc a => f a acc) l s = fold_left (fun acc a => f a acc) l' s.
Proof. exact fold_commutative_perm. Qed.
Print Assumptions C13_fold_commutative_perm.

Theorem C13_fold_idempotent_set :
  forall (A S : Type) (f : A -> S -> S),
    (forall a b s, f a (f b s) = f b (f a s)) -> (forall a s, f a (f a s) = f a s) ->
    forall l l' s, (forall x, In x l <-> In x l') -> fold_right f s l = fold_right f s l'.
Proof. exact fold_idempotent_set. Qed.
Print Assumptions C13_fold_idempotent_set.

(* normalizeInputs collects the ranges of a map and hands them to Normalize:
   the callback sequence does not depend on the order *)
Theorem C13_normalize_perm : forall l l', Permutation l l' -> normalize l = normalize l'.
Proof. exact normalize_perm. Qed.
Print Assumptions C13_normalize_perm.
