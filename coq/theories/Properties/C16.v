(* C16 — _onBounds reports the first and last token of every non-empty
   reduction.  Statements only. *)
From Coq Require Import List ZArith Bool.
From Lox Require Import Parse.Grammar Parse.Tables Parse.ParseRuntime Parse.Validator Parse.Actions
  Parse.Refine Parse.Complete Parse.Sound Parse.Bounds Parse.BoundsErase.
Import ListNotations.

(* With _onBounds defined, the complete event trace of a clean parse of tree t
   is [events t]: post-order, one ERed per node and, immediately after it, one
   EBounds carrying the action's result and the first and last token of the
   node's yield, if and only if that yield is non-empty (user-written and
   generated nodes alike). *)
Theorem C16_bounds_are_first_last :
  forall g tb c nterm discard, validate g tb c nterm = true ->
    forall w X t, ordinary nterm w -> start_sym g = Some X -> wt g X t (tokens_of w) ->
      exists fuel s top bot,
        parse tb true false discard fuel (zs w) = Accept s /\
        stack s = [top; bot] /\
        i_sym top = eval tb discard t /\
        i_bounds top = tree_bounds t /\
        rev (trace s) = events tb discard t.
Proof. exact bounds_are_first_last. Qed.
Print Assumptions C16_bounds_are_first_last.

Theorem C16_no_call_on_empty :
  forall tb discard t, yield t = [] ->
    forall res b e, ~ In (EBounds res b e) (events tb discard t).
Proof. exact no_call_on_empty. Qed.
Print Assumptions C16_no_call_on_empty.

Theorem C16_bounds_event_node :
  forall tb discard t res b e, In (EBounds res b e) (events tb discard t) ->
    exists t', In t' (LRAbstract.reds t) /\ res = eval tb discard t' /\
      exists x u, yield t' = x :: u /\ b = tok_val x /\ e = tok_val (last (x :: u) x).
Proof. exact bounds_event_node. Qed.
Print Assumptions C16_bounds_event_node.

(* its presence changes nothing else: for ALL tables, all inputs (ERROR tokens
   included), with and without recovery, erasing the bounds bookkeeping from
   the run with _onBounds gives exactly the run without it *)
Theorem C16_bounds_erasure :
  forall tb discard rec fuel w,
    erase_outcome (parse tb true rec discard fuel w) = parse tb false rec discard fuel w.
Proof. exact bounds_erasure_exact. Qed.
Print Assumptions C16_bounds_erasure.
