(* C18 — generated parsers and lexers are safe to run concurrently: the logic.
   Statements only.  Instances have their own state and share only immutable
   tables (static obligation checked on every generated file); under any
   schedule each instance ends where it ends when run alone.  The Go memory
   model itself is outside Coq: data races are explored with the race detector. *)
From Coq Require Import List Arith.
From Lox Require Import Gen.Sched.
Import ListNotations.

Theorem C18_schedule_independence :
  forall (T S : Type) (step_t : T -> S -> S) (tables : T) (sched : list nat) (sts : list S) (i : nat) (d : S),
    i < length sts ->
    nth i (run_sched T S step_t tables sched sts) d =
    Nat.iter (count_occ Nat.eq_dec sched i) (step T S step_t tables) (nth i sts d).
Proof. exact schedule_independence. Qed.
Print Assumptions C18_schedule_independence.

Theorem C18_concurrent_equals_sequential :
  forall (T S : Type) (step_t : T -> S -> S) (tables : T) (sched ks : list nat) (sts : list S),
    length ks = length sts ->
    (forall i, i < length sts -> count_occ Nat.eq_dec sched i = nth i ks 0) ->
    run_sched T S step_t tables sched sts = run_sched T S step_t tables (seq_sched 0 ks) sts.
Proof. exact concurrent_equals_sequential. Qed.
Print Assumptions C18_concurrent_equals_sequential.
