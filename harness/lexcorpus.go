package main

// Hand-written lexer specifications that run before the generated ones: shapes that once exposed a defect or a
// seeded change and that random generation produces only by luck (coinciding range boundaries, accepting states
// whose NFA numbers concatenate alike, a start state that loops or accepts, non-greedy bodies equal to the
// terminator).  Built as ASTs because the reference automaton is derived from the harness's own AST.

func lxLit(s string) lterm {
	var cps []int
	for _, c := range s {
		cps = append(cps, int(c))
	}
	return lterm{re: &lre{kind: 0, lit: cps}}
}

func lxCls(neg bool, rs ...[2]int) lterm {
	return lterm{re: &lre{kind: 1, class: &classExpr{neg: neg, items: rs}}}
}

func lxCard(t lterm, card string) lterm { t.card = card; return t }

func lxGroup(alts ...[]lterm) lterm { return lterm{re: &lre{kind: 4, alts: alts}} }

func lxTok(name string, seq ...lterm) litem {
	return litem{rule: &lrule{name: name, alts: [][]lterm{seq}}}
}

func lxTokA(name string, acts []lact, seq ...lterm) litem {
	return litem{rule: &lrule{name: name, alts: [][]lterm{seq}, acts: acts}}
}

func lxBlank() litem {
	return litem{rule: &lrule{frag: true, alts: [][]lterm{{lxCard(lxCls(false, [2]int{' ', ' '}, [2]int{'\n', '\n'}), "+")}}, acts: []lact{{kind: "discard"}}}}
}

// corpusLexSpecs: o tells which features the calling check's reference supports
func corpusLexSpecs(o lexGenOpts) []*lspec {
	var out []*lspec
	add := func(items ...litem) { out = append(out, &lspec{items: items}) }
	r := func(b, e int) [2]int { return [2]int{b, e} }

	// keywords and punctuation under an overlapping class: many accepting dead ends, some for two rules at once
	add(lxTok("T1", lxLit(";")), lxTok("T2", lxLit(",")), lxTok("T3", lxLit(".")),
		lxTok("T4", lxCls(false, r('!', '/'), r(':', '@'))), lxTok("T5", lxLit("BEGIN")), lxTok("T6", lxLit("END")), lxBlank())
	add(lxTok("T1", lxLit("a")), lxTok("T2", lxCls(false, r('a', 'z'))), lxTok("T3", lxLit("endcase")),
		lxTok("T4", lxLit("if")), lxTok("T5", lxCard(lxCls(false, r('0', '9')), "+")), lxBlank())
	// boundaries that coincide
	add(lxTok("T1", lxLit("x")), lxTok("T2", lxCls(false, r('e', 'z'))), lxTok("T3", lxCls(false, r('c', 'd'))), lxTok("T4", lxCls(false, r('a', 'z'))))
	add(lxTok("T1", lxLit("if")), lxTok("T2", lxCard(lxCls(false, r('a', 'z')), "+")),
		lxTok("T3", lxLit("0x"), lxCard(lxCls(false, r('0', '9'), r('a', 'f')), "+")), lxBlank())
	add(lxTok("T1", lxCard(lxCls(false, r('a', 'm')), "+")), lxTok("T2", lxLit("#"), lxCard(lxCls(false, r('g', 'z')), "+")), lxBlank())
	// nested cardinalities on groups
	add(lxTok("T1", lxCard(lxCls(false, r('0', '9')), "+"),
		lxCard(lxGroup([]lterm{lxLit("."), lxCard(lxGroup([]lterm{lxCard(lxLit("_"), "?"), lxCls(false, r('0', '9'))}), "+")}), "?")),
		lxTok("T2", lxCard(lxCls(false, r('a', 'z')), "+"),
			lxCard(lxGroup([]lterm{lxCard(lxGroup([]lterm{lxLit("-"), lxCard(lxCls(false, r('a', 'z')), "+")}), "+"), lxLit("!")}), "?")), lxBlank())
	if o.modes {
		// a keyword and an identifier rule inside a mode, the keyword popping the mode
		caseMode := &lmode{name: "Case", items: []litem{
			lxTok("T2", lxLit("a")), lxTok("T3", lxCls(false, r('a', 'z'))),
			lxTokA("T4", []lact{{kind: "pop"}}, lxLit("endcase")), lxBlank()}}
		add(lxTokA("T1", []lact{{kind: "push", arg: "Case"}}, lxLit("case")), lxTok("T5", lxCard(lxCls(false, r('0', '9')), "+")), lxBlank(), litem{mode: caseMode})
		// a mode that is empty, sorted before the others, and two string modes
		dq := &lmode{name: "Dq", items: []litem{lxTokA("T2", []lact{{kind: "pop"}}, lxCard(lxCls(true, r('"', '"')), "*"), lxLit("\""))}}
		sq := &lmode{name: "Sq", items: []litem{lxTokA("T3", []lact{{kind: "pop"}}, lxCard(lxCls(true, r('\'', '\'')), "*"), lxLit("'"))}}
		add(litem{mode: &lmode{name: "Common"}}, lxTokA("T1", []lact{{kind: "push", arg: "Dq"}}, lxLit("\"")),
			lxTokA("T4", []lact{{kind: "push", arg: "Sq"}}, lxLit("'")), lxTok("T5", lxCard(lxCls(false, r('a', 'z')), "+")), lxBlank(), litem{mode: dq}, litem{mode: sq})
	}
	if o.ng {
		ngRule := func(name string, seq ...lterm) litem {
			return litem{rule: &lrule{name: name, alts: [][]lterm{seq}, ng: true}}
		}
		// the body is the terminator's own character; a later rule accepts where the non-greedy one first completes
		add(ngRule("T1", lxLit("q"), lxCard(lxCls(false, r('a', 'a')), "*?"), lxLit("aa")), lxTok("T2", lxCard(lxCls(false, r('a', 'b')), "+")), lxBlank())
		add(ngRule("T1", lxLit("<"), lxCard(lterm{re: &lre{kind: 2}}, "*?"), lxLit(">")), lxTok("T2", lxLit("<>")), lxTok("T3", lxCard(lxCls(false, r('a', 'z')), "+")), lxBlank())
		add(ngRule("T1", lxLit("a"), lxCard(lxCls(false, r('a', 'z')), "+?"), lxLit("z")), lxTok("T2", lxCard(lxCls(false, r('a', 'z')), "+")), lxBlank())
	}
	if o.ngAnywhere {
		// a rule that can end right after a non-greedy repetition
		add(lxTok("T1", lxLit("\\"), lxGroup([]lterm{lxLit("u"), lxCard(lxCls(false, r('0', '9'), r('a', 'f')), "+?")}, []lterm{lxCls(false, r('n', 'n'), r('r', 'r'), r('t', 't'))})),
			lxTok("T2", lxCls(false, r('0', '9'), r('a', 'z'))), lxBlank())
		add(lxTok("T1", lxLit("x"), lxCard(lxCls(false, r('0', '9'), r('a', 'f')), "+?"), lxCard(lxLit(";"), "?")), lxTok("T2", lxCls(false, r('0', '9'), r('a', 'z'))), lxBlank())
	}
	if o.modes && o.epsRules && o.ngAnywhere {
		// a mode whose start state is non-greedy accepting
		raw := &lmode{name: "Raw", items: []litem{lxTokA("T2", []lact{{kind: "pop"}}, lxLit(">>")), lxTok("T3", lxCard(lterm{re: &lre{kind: 2}}, "*?"))}}
		add(lxTokA("T1", []lact{{kind: "push", arg: "Raw"}}, lxLit("<<")), lxTok("T4", lxCard(lxCls(false, r('a', 'z')), "+")), lxBlank(), litem{mode: raw})
	}
	return out
}
