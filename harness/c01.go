package main

import (
	"fmt"
	"path/filepath"
	"regexp"
	"sort"
	"strings"
)

func init() {
	checks["C01"] = func(c *checkCtx) { checkParser(c, "C01") }
	checks["C03"] = func(c *checkCtx) { checkParser(c, "C03") }
	checks["C16"] = func(c *checkCtx) { checkParser(c, "C16") }
	checks["C09"] = func(c *checkCtx) { checkParser(c, "C09") }
}

// checkParser: for generated conflict-free grammars (no precedence), (1) the
// emitted tables pass the verified validator (so, by parse_exact /
// parse_complete_values / bounds_are_first_last, the generated parser is right
// on ALL inputs), and (2) the exact runtime model agrees with the compiled
// generated parser on sampled sentences and near-sentences (result, number of
// tokens read, every action call with its arguments, every _onBounds call).
func checkParser(c *checkCtx, prop string) {
	c.level = "proof"
	c.cov.Rule = "random sugared grammars (nullable rules, left/right recursion, ? * + *! @list) printed as .lox, run through the real lox; conflict-free ones: emitted arrays parsed back from parser.gen.go and pushed through the extracted verified validator (Parse/Validator.v), then the compiled parser is run on sentences sampled from the grammar and on edited near-sentences and compared event for event with the Gallina runtime model on the same arrays; a case is non-trivial when the token sequence is non-empty and the grammar has at least one nullable or recursive rule"
	c.assume = []string{
		"grammars are sampled; the universal quantifier over token sequences is discharged by the Coq theorems for every grammar whose tables pass the validator",
		"the runtime model (ParseRuntime.v) is tied to the generated Go code by this run's differential comparison",
		"the sugared grammar's documented meaning is connected to the plain productions by Gen/NormalizeModel.normalize (normalize_sound / normalize_complete), compared with the dumped production list of every generated grammar",
	}
	c.coqObligations()
	if prop == "C01" {
		// internal/codegen/table.go is among C01's anchors: the row-sharing encoder against its proved model
		checkTableEncoder(c, 200)
	}

	bounds := prop == "C16"
	recovery := prop == "C09"
	if recovery {
		c.cov.Rule = "random sugared grammars with @error terms at any position; compiled parsers are run on sentences, edited near-sentences and random strings over the terminals and lexer ERROR tokens (thorough: every string up to length 4) and compared event for event with the runtime model WITH recovery; every run must terminate; an accepting run of a non-sentence must have delivered an Error whose token is the first one at which the input stops being a viable prefix (decided by an Earley recogniser over the productive part of the grammar); non-trivial = the run entered recovery at least once"
	}
	nGram := 60
	nInputs := 30
	if c.thorough() {
		nGram = 600
		nInputs = 80
	}
	ws := newWorkspace(strings.ToLower(prop))
	defer ws.close()
	var gs []*gSpec
	for _, txt := range corpusGrammars() {
		ws.add(txt).tag = "corpus"
	}
	for i := 0; i < nGram; i++ {
		g := genGrammar(c.rng, gramOpts{maxRules: 5, maxTokens: 5, allowError: recovery})
		gs = append(gs, g)
		s := ws.add(g.text())
		s.tag = g
	}
	if err := ws.dumpAll(); err != nil {
		c.addFinding(finding{Signature: "hook-failed", Desc: err.Error(), NoInput: true, Theorem: "loxverif dump", Replay: map[string]any{}})
		return
	}
	checkSugarModel(c, ws.specs)
	accepted := 0
	for _, s := range ws.specs {
		d := s.dump
		if !d.OK {
			if d.Stage == "panic" {
				c.addFinding(finding{Signature: "generator-panic", Desc: "lox panicked on a generated grammar: " + lastLines(d.Diag, 2),
					Replay: map[string]any{"spec": s.loxText, "diag": d.Diag}})
			}
			continue
		}
		if d.HasConflicts {
			continue
		}
		sm := newSampler(d)
		if !sm.productive() {
			continue
		}
		accepted++
		if bounds && accepted%3 == 0 && !hasDiscardKinds(d) {
			// C16: actions declared `any`, every second one returning an untyped nil — _onBounds must still be
			// called for the reduction; values are compared in projection (production numbers and bound tokens)
			s.goText = genUserGo(d, userOpts{bounds: true, nilres: true})
			continue
		}
		// per-rule result types in C03 always, elsewhere for every second grammar
		shared := prop == "C03" && accepted%2 == 1
		if strings.Contains(s.loxText, "//verif:shared") && !bounds {
			shared = true // corpus grammars written for the one-method-per-(rule, arity) layout
		}
		s.goText = genUserGo(d, userOpts{bounds: bounds, typed: prop == "C03" || accepted%2 == 0 || shared, shared: shared})
	}
	ws.genAll()
	ws.buildAll()

	type job struct {
		s      *wsSpec
		inputs [][]int
		sent   []bool // input k was produced by a derivation of the grammar
		plain  *jDump // the sugared grammar desugared independently by the harness (right-recursive helpers)
		tabs   *parserTables
	}
	var jobs []*job
	for _, s := range ws.specs {
		if s.goText == "" {
			continue
		}
		if s.loxCode != 0 {
			c.addFinding(finding{Signature: "lox-rejects-conflict-free-grammar",
				Desc:   "lox failed on a conflict-free grammar with matching actions: " + lastLines(s.loxOut, 3),
				Replay: map[string]any{"spec": s.loxText, "user_go": s.goText, "output": s.loxOut}})
			continue
		}
		if !s.built {
			c.addFinding(finding{Signature: "generated-code-does-not-compile",
				Desc:   "generated parser does not compile: " + lastLines(s.buildErr, 4),
				Replay: map[string]any{"spec": s.loxText, "user_go": s.goText, "errors": s.buildErr}})
			continue
		}
		t, err := readParserTables(s.dir)
		if err != nil {
			c.addFinding(finding{Signature: "arrays-unreadable", Desc: err.Error(), NoInput: true, Theorem: "translator", Replay: map[string]any{"spec": s.loxText}})
			continue
		}
		sm := newSampler(s.dump)
		j := &job{s: s, tabs: t}
		nterm := len(s.dump.Terminals)
		seen := map[string]bool{}
		addIn := func(w []int, sentence bool) {
			k := fmt.Sprint(w)
			if !seen[k] && len(w) <= 60 {
				seen[k] = true
				j.inputs = append(j.inputs, w)
				j.sent = append(j.sent, sentence)
			}
		}
		addIn(nil, false)
		for k := 0; k < nInputs; k++ {
			w := sm.sentence(c.rng, 2+c.rng.intn(5))
			addIn(w, true)
			if k%2 == 0 && nterm > 2 {
				addIn(mutateTokens(c.rng, w, nterm), false)
			}
			if recovery {
				// random strings with bursts of lexer ERROR tokens
				m := mutateTokens(c.rng, w, nterm)
				for b := c.rng.intn(3); b > 0; b-- {
					p := c.rng.intn(len(m) + 1)
					m = append(m[:p], append([]int{1}, m[p:]...)...)
				}
				addIn(m, false)
			}
		}
		if g, ok := j.s.tag.(*gSpec); ok && !recovery {
			// sentences derived from the SUGARED grammar by the documented meaning of ? * + *! @list
			ti := map[string]int{}
			for _, t := range s.dump.Terminals {
				ti[t.Name] = t.Index
			}
			j.plain = plainGrammar(g, ti)
			for k := 0; k < nInputs/2; k++ {
				if w, ok := sampleSugar(c.rng, g, ti, 2+c.rng.intn(4)); ok {
					addIn(w, true)
				}
			}
		}
		if recovery && (c.thorough() || j.s.tag == "corpus") {
			var rec func(prefix []int, n int)
			rec = func(prefix []int, n int) {
				addIn(append([]int{}, prefix...), false)
				if n == 0 {
					return
				}
				for t := 1; t < nterm; t++ {
					rec(append(prefix, t), n-1)
				}
			}
			if nterm <= 5 {
				rec(nil, 4)
			} else {
				rec(nil, 3)
			}
		}
		jobs = append(jobs, j)
	}
	c.cov.Programs = len(jobs)

	// model side: load, validate, parse
	var reqs []*req
	type ref struct {
		j *job
		k int // -1 validate
	}
	var refs []ref
	for id, j := range jobs {
		for _, q := range loadParserReqs(id, j.s.dump, j.tabs) {
			reqs = append(reqs, q)
			refs = append(refs, ref{j, -2})
		}
		reqs = append(reqs, newReq("validate").i(id).i(len(j.s.dump.Terminals)))
		refs = append(refs, ref{j, -1})
		reqs = append(reqs, newReq("termok").i(id).i(len(j.s.dump.States)))
		refs = append(refs, ref{j, -3})
		for k, w := range j.inputs {
			reqs = append(reqs, parseReq(id, bounds, true, 4*len(w)*8+400, w))
			refs = append(refs, ref{j, k})
		}
	}
	ans, err := callModel(reqs)
	if err != nil {
		c.addFinding(finding{Signature: "model-failed", Desc: err.Error(), NoInput: true, Theorem: "loxmodel", Replay: map[string]any{}})
		return
	}
	modelOut := map[*job][]string{}
	valid := map[*job]bool{}
	termChecked := 0
	defer func() {
		c.cov.Extra = mergeExtra(c.cov.Extra, map[string]any{"tables_passing_term_ok": termChecked})
	}()
	for i, a := range ans {
		r := refs[i]
		switch r.k {
		case -2:
		case -3:
			termChecked++
			if a.toks[0] != "1" {
				c.addFinding(finding{Signature: "termination-condition-fails",
					Desc:    "the emitted tables do not pass term_ok (Parse/TermCheck.v): some chain of reductions under one lookahead does not end within the fuel, so parse() is not shown to terminate on every input (" + a.raw() + ")",
					Theorem: "term_ok tb nstates F = true (hypothesis of parse_terminates / parse_decides)", NoInput: true,
					Replay: map[string]any{"spec": r.j.s.loxText}})
			}
		case -1:
			valid[r.j] = a.int() == 1
			if !valid[r.j] {
				clauses := a.raw()
				// the obligation of parse_exact is broken for this grammar: look for a concrete failing input
				f := finding{Signature: "validator-rejects-emitted-tables",
					Desc:    "the emitted LR tables do not satisfy the verified validator (clauses validate,arrays,kinds,sprime,nullable_first,init,items,rows = " + clauses + ")",
					Theorem: "validate g tb cert = true (hypothesis of parse_exact)",
					Replay:  map[string]any{"spec": r.j.s.loxText, "clauses": clauses}}
				f.NoInput = true
				r.j.s.tag = &f
			}
		default:
			modelOut[r.j] = append(modelOut[r.j], a.raw())
		}
	}
	// implementation side
	parallel(len(jobs), func(i int) {
		j := jobs[i]
		var lines []string
		for _, w := range j.inputs {
			var sb strings.Builder
			sb.WriteString("P")
			for _, t := range w {
				fmt.Fprintf(&sb, " %d", t)
			}
			lines = append(lines, sb.String())
		}
		out := j.s.runInputs(lines)
		j.s.loxOut = strings.Join(out, "\n")
	})
	for _, j := range jobs {
		implOut := strings.Split(j.s.loxOut, "\n")
		sm := newSampler(j.s.dump)
		_ = sm
		for k, w := range j.inputs {
			impl := ""
			if k < len(implOut) {
				impl = implOut[k]
			}
			model := modelOut[j][k]
			nontrivial := len(w) > 0 && (!recovery || strings.Contains(impl, "E("))
			c.note(j.s.name+fmt.Sprint(w), nontrivial)
			if k == 1 && len(c.cov.Samples) < 4 {
				c.sample(map[string]any{"grammar": j.s.loxText, "tokens": w, "parser": impl, "model": model})
			}
			iv := canonImpl(impl)
			mv := canonModel(model)
			if j.s.dump.anyres {
				iv, mv = projectValues(iv), projectValues(mv)
			}
			if strings.HasPrefix(impl, "HANG") && strings.HasPrefix(model, "FUEL") && !recovery {
				continue // non-termination of error recovery is C09's subject
			}
			if strings.HasPrefix(impl, "HANG") && strings.HasPrefix(model, "FUEL") {
				c.addFinding(finding{Signature: "parse-does-not-terminate",
					Desc:   fmt.Sprintf("parse() does not return on tokens %v (the model runs out of fuel in error recovery as well)", tokenNames(j.s.dump, w)),
					Replay: map[string]any{"spec": j.s.loxText, "tokens": w, "token_names": tokenNames(j.s.dump, w)}})
				continue
			}
			if strings.HasPrefix(impl, "PANIC") {
				c.addFinding(finding{Signature: "parse-panics",
					Desc:   fmt.Sprintf("parse() panics on tokens %v: %s", tokenNames(j.s.dump, w), impl),
					Replay: map[string]any{"spec": j.s.loxText, "tokens": w, "parser": impl, "model": model}})
				continue
			}
			if recovery {
				if strings.Contains(impl, "E(") {
					c.distinct["rec:"+j.s.name+fmt.Sprint(w)] = true
				}
				checkBlame(c, j.s, w, impl)
			}
			if iv != mv {
				f := finding{Signature: "runtime-model-mismatch",
					Desc:    fmt.Sprintf("generated parser and runtime model differ on tokens %v: parser %q, model %q", w, iv, mv),
					Theorem: "correspondence generated parse() vs ParseRuntime.parse",
					Replay:  map[string]any{"spec": j.s.loxText, "tokens": w, "parser": impl, "model": model}}
				c.addFinding(f)
			}
		}
		// independent of the model: a sampled derivation is a sentence, the parser must accept it;
		// on a broken obligation, an Earley recogniser searches the sampled inputs for a wrong verdict
		f, broken := j.s.tag.(*finding)
		found := false
		for k, w := range j.inputs {
			if k >= len(implOut) {
				break
			}
			acc := strings.HasPrefix(implOut[k], "ACC")
			isSent := j.sent[k]
			if j.plain != nil && !recovery {
				// independent language oracle: Earley over the harness's own desugaring
				want := earleyAccepts(j.plain, w)
				if want != acc {
					found = true
					what := "rejects the sentence"
					if acc {
						what = "accepts the non-sentence"
					}
					c.addFinding(finding{Signature: "parser-" + strings.Fields(what)[0] + "-wrongly",
						Desc:   fmt.Sprintf("the generated parser %s %v (sugar read as documented: x? x* x+ x*! @list)", what, tokenNames(j.s.dump, w)),
						Replay: map[string]any{"spec": j.s.loxText, "tokens": w, "token_names": tokenNames(j.s.dump, w), "parser": implOut[k]}})
					break
				}
				continue
			}
			if !isSent && broken {
				isSent = earleyAccepts(j.s.dump, w)
			} else if !isSent {
				continue
			}
			if isSent != acc && (j.sent[k] || broken) {
				found = true
				what := "rejects the sentence"
				if acc {
					what = "accepts the non-sentence"
				}
				c.addFinding(finding{Signature: "parser-" + strings.Fields(what)[0] + "-wrongly",
					Desc:   fmt.Sprintf("the generated parser %s %v of the grammar", what, tokenNames(j.s.dump, w)),
					Replay: map[string]any{"spec": j.s.loxText, "tokens": w, "token_names": tokenNames(j.s.dump, w), "parser": implOut[k]}})
				break
			}
		}
		if broken && !found {
			c.addFinding(*f)
		}
	}
	c.cov.Extra = mergeExtra(c.cov.Extra, map[string]any{"grammars_generated": nGram, "conflict_free_productive": accepted,
		"compiled": len(jobs)})
}

// projectValues keeps, of every event, the production number (reductions) and the two bound tokens (_onBounds)
func projectValues(s string) string {
	lo, hi := strings.Index(s, "["), strings.LastIndex(s, "]")
	if lo < 0 || hi < lo {
		return s
	}
	// blanks inside a value (the Expected list of an Error) must not split the event
	b := []byte(s[lo+1 : hi])
	depth := 0
	for i, ch := range b {
		switch ch {
		case '[':
			depth++
		case ']':
			depth--
		case ' ':
			if depth >= 1 {
				b[i] = ','
			}
		}
	}
	evs := strings.Fields(string(b))
	for k, e := range evs {
		switch {
		case strings.HasPrefix(e, "B="):
			if i := strings.Index(e, ";"); i >= 0 {
				evs[k] = "B=" + e[i:]
			}
		case strings.HasPrefix(e, "R"):
			if i := strings.Index(e, "="); i >= 0 {
				evs[k] = e[:i]
			}
		}
	}
	return s[:lo+1] + strings.Join(evs, " ") + s[hi:]
}

func hasDiscardKinds(d *jDump) bool {
	for _, r := range d.Rules {
		if strings.HasSuffix(r.Kind, "_f") {
			return true
		}
	}
	return false
}

// canonical form "RESULT reads [events] top" of both sides
func canonImpl(line string) string {
	f := strings.Split(line, "\t")
	if len(f) < 3 {
		return line
	}
	return f[0] + " " + f[1] + " [" + f[2] + "]"
}

func canonModel(line string) string {
	f := strings.Fields(line)
	if len(f) < 2 {
		return line
	}
	// ACC pos [ev ev] top
	rest := strings.Join(f[2:], " ")
	i := strings.LastIndex(rest, "]")
	evs := rest
	if i >= 0 {
		evs = rest[:i+1]
	}
	return f[0] + " " + f[1] + " " + evs
}

func mergeExtra(a, b map[string]any) map[string]any {
	if a == nil {
		a = map[string]any{}
	}
	for k, v := range b {
		a[k] = v
	}
	return a
}

func tokenNames(d *jDump, w []int) []string {
	var out []string
	for _, t := range w {
		if t >= 0 && t < len(d.Terminals) {
			out = append(out, d.Terminals[t].Name)
		} else {
			out = append(out, fmt.Sprint(t))
		}
	}
	return out
}

func corpusGrammars() []string {
	files, _ := filepath.Glob(filepath.Join(verifDir, "corpus", "grammars", "*.lox"))
	sort.Strings(files)
	var out []string
	for _, f := range files {
		out = append(out, readFile(f))
	}
	return out
}

// checkBlame: reading @error as a terminal only the parser can supply, for an
// input without lexer ERROR tokens that is not a sentence the parser must
// return false or deliver an Error, and the first Error delivered (first in input order, see below) must carry
// the first token at which the input stops being a prefix of a sentence.
var errTokRe = regexp.MustCompile(`E\(T\((-?\d+),(\d+)\)`)

func checkBlame(c *checkCtx, s *wsSpec, w []int, impl string) {
	for _, t := range w {
		if t == 1 {
			return
		}
	}
	k, sentence := earleyViable(s.dump, w)
	f := strings.Split(impl, "\t")
	if len(f) < 3 {
		return
	}
	acc := f[0] == "ACC"
	log := f[2]
	i := strings.Index(log, "E(T(")
	if sentence {
		if !acc || i >= 0 {
			c.addFinding(finding{Signature: "sentence-not-accepted-cleanly",
				Desc:   fmt.Sprintf("the sentence %v was rejected or went through error recovery", tokenNames(s.dump, w)),
				Replay: map[string]any{"spec": s.loxText, "tokens": w, "parser": impl}})
		}
		return
	}
	if acc && i < 0 {
		c.addFinding(finding{Signature: "non-sentence-accepted-silently",
			Desc:   fmt.Sprintf("the non-sentence %v was accepted and no Error was delivered to an @error action", tokenNames(s.dump, w)),
			Replay: map[string]any{"spec": s.loxText, "tokens": w, "parser": impl}})
		return
	}
	if i < 0 || !acc {
		// returned false: the property's first alternative. (An Error that was built and shifted belongs to a
		// production that was never completed when parse() gives up, so it reaches no action; the Errors that
		// did reach one are then later ones.)
		return
	}
	// "first" is read in INPUT order, i.e. the Error that was built first (token positions only grow while the
	// parser advances): actions run at reduce time, so in a right-recursive rule such as  s = A @error s  the
	// action that receives the last error of the input is the first one to be called.
	id := -1
	for _, m := range errTokRe.FindAllStringSubmatch(log, -1) {
		var x int
		fmt.Sscan(m[2], &x)
		if id < 0 || x < id {
			id = x
		}
	}
	if id != k {
		// A grammar with a rule that derives no token string (R = TA @list(R, TB) TC) is accepted by lox; its LR
		// automaton then follows prefixes no sentence has, and the error is noticed later than the first bad token.
		// This is the recorded finding if and only if the blamed token is the first one at which the input stops
		// being a prefix in the UNREDUCED grammar (all rules predicted); any other blame is a different violation.
		if kRaw, _ := earleyRun(s.dump, w, false); kRaw != k && id == kRaw {
			c.addFinding(finding{Signature: "error-blame-delayed-by-unproductive-rule",
				Desc: fmt.Sprintf("on %v the Error delivered carries token #%d; the input stops being a prefix of a sentence at token #%d already, but a rule that derives nothing keeps the LR automaton going until #%d",
					tokenNames(s.dump, w), id, k, kRaw),
				Replay: map[string]any{"spec": s.loxText, "tokens": w, "parser": impl, "first_bad_token_index": k, "first_bad_token_index_unreduced_grammar": kRaw}})
			return
		}
		c.addFinding(finding{Signature: "error-blames-wrong-token",
			Desc: fmt.Sprintf("on %v the first Error delivered carries token #%d, but the input stops being a prefix of a sentence at token #%d",
				tokenNames(s.dump, w), id, k),
			Replay: map[string]any{"spec": s.loxText, "tokens": w, "parser": impl, "first_bad_token_index": k}})
	}
}
