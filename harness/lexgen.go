package main

import (
	"fmt"
	"sort"
	"strings"
	"unicode/utf8"
)

// Harness-side lexer specification AST: the ground truth from which the .lox
// text is printed and from which the reference rules for the model are built.
type lre struct {
	kind  int // 0 literal, 1 class, 2 '.', 3 macro reference, 4 group
	lit   []int
	class *classExpr
	ref   string
	alts  [][]lterm
}

type lterm struct {
	re   *lre
	card string // "", "?", "*", "+", "*?", "+?"
}

type lact struct {
	kind string // discard, push, pop, emit
	arg  string
}

type lrule struct {
	frag bool
	name string
	alts [][]lterm
	acts []lact
	ng   bool // a non-greedy-shaped rule (C08)
}

type litem struct { // one statement of the @lexer section
	rule  *lrule
	macro *lrule // name + alts
	mode  *lmode
	ext   []string
}

type lmode struct {
	name  string
	items []litem
}

type lspec struct {
	items []litem // statements of the default mode, in order
}

func (s *lspec) macros() map[string]*lrule {
	m := map[string]*lrule{}
	var walk func(items []litem)
	walk = func(items []litem) {
		for _, it := range items {
			if it.macro != nil {
				m[it.macro.name] = it.macro
			}
			if it.mode != nil {
				walk(it.mode.items)
			}
		}
	}
	walk(s.items)
	return m
}

// modes in lox's numbering: sorted by name, "$default" first
func (s *lspec) modeList() []*lmode {
	ms := []*lmode{{name: "$default", items: s.items}}
	var walk func(items []litem)
	walk = func(items []litem) {
		for _, it := range items {
			if it.mode != nil {
				ms = append(ms, it.mode)
				walk(it.mode.items)
			}
		}
	}
	walk(s.items)
	sort.Slice(ms, func(i, j int) bool { return ms[i].name < ms[j].name })
	return ms
}

func (s *lspec) modeIndex(name string) int {
	if name == "" {
		name = "$default"
	}
	for i, m := range s.modeList() {
		if m.name == name {
			return i
		}
	}
	return -1
}

// terminal names in lox's numbering: EOF, ERROR, then tokens and externals in visiting order
func (s *lspec) terminals() []string {
	out := []string{"EOF", "ERROR"}
	var walk func(items []litem)
	walk = func(items []litem) {
		for _, it := range items {
			switch {
			case it.rule != nil && !it.rule.frag:
				out = append(out, it.rule.name)
			case it.ext != nil:
				out = append(out, it.ext...)
			case it.mode != nil:
				walk(it.mode.items)
			}
		}
	}
	walk(s.items)
	return out
}

func (s *lspec) termIndex(name string) int {
	for i, n := range s.terminals() {
		if n == name {
			return i
		}
	}
	return -1
}

// ---- printing ----

func (t lterm) text(r *rng) string {
	var s string
	switch t.re.kind {
	case 0:
		s = literalText(r, t.re.lit)
	case 1:
		s = t.re.class.text(r)
	case 2:
		s = "."
	case 3:
		s = t.re.ref
	case 4:
		s = "(" + altsText(r, t.re.alts) + ")"
	}
	return s + t.card
}

func altsText(r *rng, alts [][]lterm) string {
	var as []string
	for _, seq := range alts {
		var ts []string
		for _, t := range seq {
			ts = append(ts, t.text(r))
		}
		as = append(as, strings.Join(ts, " "))
	}
	return strings.Join(as, " | ")
}

func (a lact) text() string {
	switch a.kind {
	case "discard":
		return "@discard"
	case "pop":
		return "@pop_mode"
	case "push":
		return "@push_mode(" + a.arg + ")"
	default:
		return "@emit(" + a.arg + ")"
	}
}

func itemsText(r *rng, items []litem, ind string, sb *strings.Builder) {
	for _, it := range items {
		switch {
		case it.rule != nil:
			if it.rule.frag {
				sb.WriteString(ind + "@frag " + altsText(r, it.rule.alts))
			} else {
				sb.WriteString(ind + it.rule.name + " = " + altsText(r, it.rule.alts))
			}
			for _, a := range it.rule.acts {
				sb.WriteString(" " + a.text())
			}
			sb.WriteString("\n")
		case it.macro != nil:
			sb.WriteString(ind + "@macro " + it.macro.name + " = " + altsText(r, it.macro.alts) + "\n")
		case it.ext != nil:
			sb.WriteString(ind + "@external " + strings.Join(it.ext, " ") + "\n")
		case it.mode != nil:
			sb.WriteString(ind + "@mode " + it.mode.name + " {\n")
			itemsText(r, it.mode.items, ind+"  ", sb)
			sb.WriteString(ind + "}\n")
		}
	}
}

func (s *lspec) text(r *rng) string {
	var sb strings.Builder
	sb.WriteString("@lexer\n")
	itemsText(r, s.items, "", &sb)
	return sb.String()
}

// ---- encoding for the model (RegexRef.re) ----

func encClass(q *req, e *classExpr) { q.i(2); e.encode(q) }

func (s *lspec) encAlts(q *req, alts [][]lterm, macros map[string]*lrule) {
	for i, seq := range alts {
		if i < len(alts)-1 {
			q.i(4)
		}
		s.encSeq(q, seq, macros)
	}
}

func (s *lspec) encSeq(q *req, seq []lterm, macros map[string]*lrule) {
	for i, t := range seq {
		if i < len(seq)-1 {
			q.i(3)
		}
		s.encTerm(q, t, macros)
	}
}

func (s *lspec) encTerm(q *req, t lterm, macros map[string]*lrule) {
	base := func() {
		switch t.re.kind {
		case 0:
			for i, c := range t.re.lit {
				if i < len(t.re.lit)-1 {
					q.i(3)
				}
				encClass(q, &classExpr{items: [][2]int{{c, c}}})
			}
		case 1:
			encClass(q, t.re.class)
		case 2:
			encClass(q, &classExpr{items: [][2]int{{0, maxRune}}})
		case 3:
			s.encAlts(q, macros[t.re.ref].alts, macros)
		case 4:
			s.encAlts(q, t.re.alts, macros)
		}
	}
	switch t.card {
	case "":
		base()
	case "?":
		q.i(4)
		base()
		q.i(1)
	case "*", "*?":
		q.i(5)
		base()
	case "+", "+?":
		q.i(3)
		base()
		q.i(5)
		base()
	}
}

// the action pairs a rule must execute: every mode action in written order,
// then the rule's terminal action (accept / discard / accumulate) — whatever
// order the actions were written in, all of them must take effect
func (s *lspec) expectedActs(r *lrule) [][2]int {
	var out, term [][2]int
	for _, a := range r.acts {
		switch a.kind {
		case "push":
			out = append(out, [2]int{1, s.modeIndex(a.arg)})
		case "pop":
			out = append(out, [2]int{2, 0})
		case "discard":
			term = append(term, [2]int{4, 0})
		case "emit":
			term = append(term, [2]int{3, s.termIndex(a.arg)})
		}
	}
	if !r.frag {
		term = append(term, [2]int{3, s.termIndex(r.name)})
	} else if len(term) == 0 {
		term = append(term, [2]int{5, 0})
	}
	return append(out, term...)
}

func (s *lspec) reloadReq(id int) *req {
	q := newReq("reload").i(id)
	macros := s.macros()
	ms := s.modeList()
	q.i(len(ms))
	for _, m := range ms {
		var rules []*lrule
		for _, it := range m.items {
			if it.rule != nil {
				rules = append(rules, it.rule)
			}
		}
		q.i(len(rules))
		for _, r := range rules {
			s.encAlts(q, r.alts, macros)
			acts := s.expectedActs(r)
			q.i(len(acts))
			for _, a := range acts {
				q.i(a[0]).i(a[1])
			}
			q.b(r.ng)
		}
	}
	return q
}

// ---- harness-side helpers on regexes ----

func (s *lspec) nullableAlts(alts [][]lterm, macros map[string]*lrule, depth int) bool {
	for _, seq := range alts {
		all := true
		for _, t := range seq {
			if !s.nullableTerm(t, macros, depth) {
				all = false
				break
			}
		}
		if all {
			return true
		}
	}
	return false
}

func (s *lspec) nullableTerm(t lterm, macros map[string]*lrule, depth int) bool {
	if t.card == "?" || t.card == "*" || t.card == "*?" {
		return true
	}
	if depth > 20 {
		return false
	}
	switch t.re.kind {
	case 0:
		return len(t.re.lit) == 0
	case 3:
		return s.nullableAlts(macros[t.re.ref].alts, macros, depth+1)
	case 4:
		return s.nullableAlts(t.re.alts, macros, depth+1)
	}
	return false
}

// sample a string matched by alts (code points)
func (s *lspec) sampleAlts(r *rng, alts [][]lterm, macros map[string]*lrule, depth int, out *[]int) {
	seq := pick(r, alts)
	for _, t := range seq {
		n := 1
		switch t.card {
		case "?":
			n = r.intn(2)
		case "*", "*?":
			n = r.intn(3)
		case "+", "+?":
			n = 1 + r.intn(3)
		}
		if depth > 6 && n > 1 {
			n = 1
		}
		for i := 0; i < n; i++ {
			switch t.re.kind {
			case 0:
				*out = append(*out, t.re.lit...)
			case 1:
				if c, ok := sampleClass(r, t.re.class); ok {
					*out = append(*out, c)
				}
			case 2:
				*out = append(*out, pick(r, lexAlphabet))
			case 3:
				s.sampleAlts(r, macros[t.re.ref].alts, macros, depth+1, out)
			case 4:
				s.sampleAlts(r, t.re.alts, macros, depth+1, out)
			}
		}
	}
}

func sampleClass(r *rng, e *classExpr) (int, bool) {
	var cands []int
	for _, c := range lexAlphabet {
		if e.sem(c) {
			cands = append(cands, c)
		}
	}
	for _, it := range e.items {
		for _, c := range []int{it[0], it[1], it[0] - 1, it[1] + 1} {
			if c >= 0 && c <= maxRune && !isSurrogate(c) && e.sem(c) {
				cands = append(cands, c)
			}
		}
	}
	if len(cands) == 0 {
		return 0, false
	}
	return pick(r, cands), true
}

var lexAlphabet = []int{'a', 'b', 'c', 'x', 'y', 'z', '0', '1', ' ', '\n', '*', '/', '"', 0xE9, 0x20AC, 0x1F600}

// ---- generation ----

type lexGenOpts struct {
	modes    bool
	ng       bool // include non-greedy-shaped rules
	epsRules bool // allow rules matching the empty string
	accum    bool // allow action-less fragments
	// non-greedy operators anywhere in a rule (only where the reference is the powerset of lox's own NFA: the
	// derivative reference of C02/C08 knows the shape prefix body*? terminator only)
	ngAnywhere bool
}

// set by genLexSpec for the terms it generates (generation is sequential)
var lexNGAnywhere bool

func genLexClass(r *rng) *classExpr {
	e := &classExpr{neg: r.chance(1, 5)}
	n := 1 + r.intn(3)
	for i := 0; i < n; i++ {
		a := pick(r, lexAlphabet)
		b := a
		if r.chance(1, 2) {
			b = a + r.intn(6)
			if b > maxRune {
				b = maxRune
			}
			if isSurrogate(b) {
				b = a
			}
		}
		e.items = append(e.items, [2]int{a, b})
	}
	if r.chance(1, 6) {
		sub := &classExpr{items: [][2]int{{pick(r, lexAlphabet), 0}}}
		sub.items[0][1] = sub.items[0][0]
		e.sub = sub
	}
	return e
}

func nonEmptyClass(e *classExpr) bool {
	for _, p := range probePoints(e.items, func() [][2]int {
		if e.sub != nil {
			return e.sub.items
		}
		return nil
	}()) {
		if !isSurrogate(p) && e.sem(p) {
			return true
		}
	}
	return false
}

func genLexTerm(r *rng, depth int, macroNames []string) lterm {
	t := lterm{}
	switch k := r.intn(10); {
	case k < 4:
		n := 1 + r.intn(3)
		re := &lre{kind: 0}
		for i := 0; i < n; i++ {
			re.lit = append(re.lit, pick(r, lexAlphabet))
		}
		t.re = re
	case k < 7:
		for {
			c := genLexClass(r)
			if nonEmptyClass(c) {
				t.re = &lre{kind: 1, class: c}
				break
			}
		}
	case k == 7 && len(macroNames) > 0:
		t.re = &lre{kind: 3, ref: pick(r, macroNames)}
	case k == 8 && depth < 2:
		t.re = &lre{kind: 4, alts: genLexAlts(r, depth+1, macroNames)}
	default:
		if r.chance(1, 4) {
			t.re = &lre{kind: 2}
		} else {
			t.re = &lre{kind: 0, lit: []int{pick(r, lexAlphabet)}}
		}
	}
	switch r.intn(8) {
	case 0:
		t.card = "?"
	case 1:
		t.card = "*"
	case 2:
		t.card = "+"
	case 3:
		if lexNGAnywhere && r.chance(1, 2) {
			t.card = pick(r, []string{"*?", "+?"})
		}
	}
	return t
}

func genLexAlts(r *rng, depth int, macroNames []string) [][]lterm {
	na := 1
	if r.chance(1, 3) {
		na = 2
	}
	var alts [][]lterm
	for i := 0; i < na; i++ {
		n := 1 + r.intn(3)
		var seq []lterm
		for j := 0; j < n; j++ {
			seq = append(seq, genLexTerm(r, depth, macroNames))
		}
		alts = append(alts, seq)
	}
	return alts
}

// genNestedCardRule: cardinalities on groups whose single alternative itself begins and/or ends with a group
// under a cardinality, e.g.  [0-9]+ ('.' ('_'? [0-9])+)?   or   'a' ((Y Z)+ X)*  — the shapes in which the
// begin/end states of an inner group coincide with those of the outer one if a construction shares states.
func genNestedCardRule(r *rng) [][]lterm {
	atom := func() lterm {
		if r.chance(1, 2) {
			return lterm{re: &lre{kind: 0, lit: []int{pick(r, lexAlphabet)}}}
		}
		for {
			c := genLexClass(r)
			if nonEmptyClass(c) {
				return lterm{re: &lre{kind: 1, class: c}}
			}
		}
	}
	group := func(seq []lterm, card string) lterm {
		return lterm{re: &lre{kind: 4, alts: [][]lterm{seq}}, card: card}
	}
	inner := func() lterm {
		var seq []lterm
		for n := 1 + r.intn(2); n > 0; n-- {
			a := atom()
			if r.chance(1, 4) {
				a.card = "?"
			}
			seq = append(seq, a)
		}
		if seq[0].card == "?" && len(seq) == 1 {
			seq[0].card = ""
		}
		return group(seq, pick(r, []string{"+", "*", "+", "?"}))
	}
	var body []lterm
	switch r.intn(4) {
	case 0: // X (inner)
		body = []lterm{atom(), inner()}
	case 1: // (inner) X
		body = []lterm{inner(), atom()}
	case 2: // (inner) alone
		body = []lterm{inner()}
	default: // (inner) X (inner)
		body = []lterm{inner(), atom(), inner()}
	}
	outer := group(body, pick(r, []string{"?", "*", "+", "?"}))
	seq := []lterm{atom()}
	if r.chance(1, 2) {
		seq[0].card = "+"
	}
	seq = append(seq, outer)
	if r.chance(1, 3) {
		seq = append(seq, atom())
	}
	return [][]lterm{seq}
}

// genNGRule: prefix, non-greedy repetition of a one-character expression, literal terminator
func genNGRule(r *rng) [][]lterm {
	var seq []lterm
	switch r.intn(3) {
	case 0:
		seq = append(seq, lterm{re: &lre{kind: 0, lit: []int{'/', '*'}}})
	case 1:
		seq = append(seq, lterm{re: &lre{kind: 0, lit: []int{'"'}}})
	}
	var body lterm
	switch r.intn(3) {
	case 0:
		body = lterm{re: &lre{kind: 2}}
	case 1:
		body = lterm{re: &lre{kind: 1, class: &classExpr{items: [][2]int{{'a', 'c'}, {'*', '*'}, {'/', '/'}, {'"', '"'}, {'x', 'z'}}}}}
	default:
		body = lterm{re: &lre{kind: 4, alts: [][]lterm{
			{{re: &lre{kind: 1, class: &classExpr{items: [][2]int{{'a', 'b'}}}}}},
			{{re: &lre{kind: 1, class: &classExpr{items: [][2]int{{'*', '/'}, {'x', 'y'}, {'"', '"'}}}}}}}}}
	}
	if r.chance(1, 2) {
		body.card = "*?"
	} else {
		body.card = "+?"
	}
	term := pick(r, [][]int{{'*', '/'}, {'"'}, {'a', 'a'}, {'a', 'b', 'a'}, {'x'}, {'x', 'y'}})
	if r.chance(1, 5) {
		// the body is exactly the terminator's (repeated) character: [a]*? 'aa' — the accepting state then has a
		// single outgoing range
		ch := pick(r, []int{'a', '"', 'x', '*'})
		body.re = &lre{kind: 1, class: &classExpr{items: [][2]int{{ch, ch}}}}
		term = pick(r, [][]int{{ch}, {ch, ch}, {ch, ch, ch}})
	}
	seq = append(seq, body)
	seq = append(seq, lterm{re: &lre{kind: 0, lit: term}})
	return [][]lterm{seq}
}

// genSmallRangeSpec: nothing but 3-6 rules that are single ranges (sometimes two) over the eight letters a..h, so
// that equal starts, equal ends, containment on both sides, exact remainders and one-character ranges on a
// boundary all occur often — the corner cases of the code that splits overlapping ranges.
func genSmallRangeSpec(r *rng) *lspec {
	s := &lspec{}
	var ranges [][2]int
	switch r.intn(4) {
	case 0:
		// x strictly contains y; w is exactly what is left of x to the right of y; z lies inside w
		ranges = [][2]int{{'a', 'h'}, {'c', 'd'}, {'e', 'h'}, {'g', 'g'}}
		if r.chance(1, 2) {
			ranges = [][2]int{{'a', 'g'}, {'b', 'b'}, {'c', 'g'}, {'d', 'f'}}
		}
	case 1:
		// the same to the left
		ranges = [][2]int{{'a', 'h'}, {'e', 'f'}, {'a', 'd'}, {'b', 'b'}}
	case 2:
		// two ranges with a common start; a third one begins exactly on the last character of the shorter
		ranges = [][2]int{{'a', 'c'}, {'a', 'h'}, {'c', 'c'}}
		if r.chance(1, 2) {
			ranges = [][2]int{{'b', 'e'}, {'b', 'g'}, {'e', 'f'}}
		}
	}
	for k := r.intn(4); k > 0 || len(ranges) < 3; k-- {
		b := 'a' + r.intn(8)
		ranges = append(ranges, [2]int{b, b + r.intn('h'-b+1)})
	}
	for i, k := range r.perm(len(ranges)) {
		t := lterm{re: &lre{kind: 1, class: &classExpr{items: [][2]int{ranges[k]}}}}
		if r.chance(1, 3) {
			t.card = "+"
		}
		rule := &lrule{name: fmt.Sprintf("T%d", i+1), alts: [][]lterm{{t}}}
		if r.chance(1, 5) {
			// a second term: its range meets the others in a different NFA state
			b := 'a' + r.intn(8)
			rule.alts[0] = append(rule.alts[0], lterm{re: &lre{kind: 1, class: &classExpr{items: [][2]int{{b, b + r.intn('h'-b+1)}}}}})
		}
		s.items = append(s.items, litem{rule: rule})
	}
	return s
}

func genLexSpec(r *rng, o lexGenOpts) *lspec {
	lexNGAnywhere = o.ngAnywhere
	if r.chance(1, 6) {
		return genSmallRangeSpec(r)
	}
	s := &lspec{}
	var macroNames []string
	if r.chance(1, 3) {
		m := &lrule{name: "MAC", alts: genLexAlts(r, 1, nil)}
		s.items = append(s.items, litem{macro: m})
		macroNames = append(macroNames, "MAC")
	}
	tokN := 0
	newTok := func() string { tokN++; return fmt.Sprintf("T%d", tokN) }
	var modeNames []string
	nModes := 0
	if o.modes {
		nModes = 1 + r.intn(2)
		for i := 0; i < nModes; i++ {
			modeNames = append(modeNames, pick(r, []string{"Alt", "Str", "Zed", "Inner"})+fmt.Sprint(i))
		}
	}
	genRules := func(inMode bool) []litem {
		var items []litem
		n := 2 + r.intn(4)
		for i := 0; i < n; i++ {
			rule := &lrule{frag: r.chance(1, 3)}
			if !rule.frag {
				rule.name = newTok()
			}
			if o.ng && i == 0 {
				rule.alts = genNGRule(r)
				rule.ng = true
			} else if r.chance(1, 6) {
				rule.alts = genNestedCardRule(r)
			} else {
				rule.alts = genLexAlts(r, 0, macroNames)
			}
			if rule.frag {
				switch k := r.intn(4); {
				case k == 0 && o.accum:
					// action-less: accumulate
				case k == 1 && tokN > 0:
					rule.acts = append(rule.acts, lact{kind: "emit", arg: fmt.Sprintf("T%d", 1+r.intn(tokN))})
				default:
					rule.acts = append(rule.acts, lact{kind: "discard"})
				}
			}
			if len(modeNames) > 0 && r.chance(1, 3) {
				a := lact{kind: "push", arg: pick(r, modeNames)}
				if inMode && r.chance(1, 2) {
					a = lact{kind: "pop"}
				}
				// either order: every written action must take effect
				if r.chance(1, 2) {
					rule.acts = append([]lact{a}, rule.acts...)
				} else {
					rule.acts = append(rule.acts, a)
				}
				if r.chance(1, 3) {
					// a second mode action on the same rule, e.g. "@pop_mode @push_mode(M)" (replace the mode)
					b := lact{kind: "push", arg: pick(r, modeNames)}
					if a.kind == "push" && inMode {
						b = lact{kind: "pop"}
					}
					if r.chance(1, 2) {
						rule.acts = append([]lact{b}, rule.acts...)
					} else {
						rule.acts = append(rule.acts, b)
					}
				}
			}
			items = append(items, litem{rule: rule})
		}
		return items
	}
	s.items = append(s.items, genRules(false)...)
	if r.chance(1, 4) {
		// a family of ranges with coinciding boundaries, where range-splitting code has its corner cases: x strictly
		// contains y; w is exactly the remainder of x to the right (or left) of y; z is one character inside w; u
		// starts where x starts and is shorter; v begins exactly on u's last character
		lo := 'a' + r.intn(3)
		hi := 'z' - r.intn(3)
		y1 := lo + 1 + r.intn(4)
		y2 := y1 + r.intn(3)
		cls := func(b, e int) [][]lterm {
			t := lterm{re: &lre{kind: 1, class: &classExpr{items: [][2]int{{b, e}}}}}
			if r.chance(1, 3) {
				t.card = "+"
			}
			return [][]lterm{{t}}
		}
		var fam [][][]lterm
		fam = append(fam, cls(lo, hi), cls(y1, y2))
		if r.chance(1, 2) {
			fam = append(fam, cls(y2+1, hi))
			z := y2 + 2 + r.intn(hi-y2-2)
			fam = append(fam, cls(z, z))
		} else {
			fam = append(fam, cls(lo, y1-1))
		}
		if r.chance(1, 2) {
			u := lo + 2 + r.intn(5)
			fam = append(fam, cls(lo, u), cls(u, u+r.intn(2)))
		}
		for _, k := range r.perm(len(fam)) {
			s.items = append(s.items, litem{rule: &lrule{name: newTok(), alts: fam[k]}})
		}
	}
	if o.epsRules && o.accum && r.chance(1, 2) {
		// an accumulating fragment that can match the empty string
		body := lterm{re: &lre{kind: 1, class: &classExpr{items: [][2]int{{'a', 'c'}, {' ', ' '}}}}, card: "*"}
		s.items = append(s.items, litem{rule: &lrule{frag: true, alts: [][]lterm{{body}}}})
	}
	for _, mn := range modeNames {
		m := &lmode{name: mn, items: genRules(true)}
		// make sure the mode can be left
		m.items = append(m.items, litem{rule: &lrule{frag: true, alts: [][]lterm{{{re: &lre{kind: 0, lit: []int{'}'}}}}}, acts: []lact{{kind: "pop"}, {kind: "discard"}}}})
		pos := r.intn(len(s.items) + 1)
		s.items = append(s.items[:pos], append([]litem{{mode: m}}, s.items[pos:]...)...)
	}
	if o.modes && r.chance(1, 3) {
		// a mode whose ONLY rule begins with a star loop (BODY = ~[/]* '/' @pop_mode): after minimisation its
		// start state loops on itself; entered from the default mode by a dedicated rule
		term := pick(r, []int{'/', '"', 'z'})
		loop := lterm{re: &lre{kind: 1, class: &classExpr{neg: true, items: [][2]int{{term, term}}}}, card: "*"}
		if r.chance(1, 3) {
			loop = lterm{re: &lre{kind: 1, class: &classExpr{items: [][2]int{{'a', 'c'}, {' ', ' '}}}}, card: "*"}
		}
		body := &lrule{alts: [][]lterm{{loop, {re: &lre{kind: 0, lit: []int{term}}}}}, acts: []lact{{kind: "pop"}}}
		if r.chance(1, 2) {
			body.name = newTok()
		} else {
			body.frag = true
			body.acts = append(body.acts, lact{kind: "discard"})
		}
		m := &lmode{name: "Loop8", items: []litem{{rule: body}}}
		enter := &lrule{name: newTok(), alts: [][]lterm{{{re: &lre{kind: 0, lit: []int{'x', term}}}}}, acts: []lact{{kind: "push", arg: "Loop8"}}}
		s.items = append([]litem{{rule: enter}}, s.items...)
		s.items = append(s.items, litem{mode: m})
	}
	if o.modes && r.chance(1, 3) {
		// a mode without any token or fragment rule (empty, or holding only a macro), placed anywhere in the
		// name order: mode indices are positions in the sorted name list and must not depend on it
		m := &lmode{name: pick(r, []string{"Aa", "Mid", "Zz", "B"}) + "9"}
		if r.chance(1, 2) {
			m.items = append(m.items, litem{macro: &lrule{name: "EMAC", alts: [][]lterm{{{re: &lre{kind: 0, lit: []int{'q'}}}}}}})
		}
		pos := r.intn(len(s.items) + 1)
		s.items = append(s.items[:pos], append([]litem{{mode: m}}, s.items[pos:]...)...)
	}
	if !o.epsRules {
		s.ensureNoEmptyMatch(r)
	}
	return s
}

// ensureNoEmptyMatch: C02's hypothesis — no rule matches the empty string
func (s *lspec) ensureNoEmptyMatch(r *rng) {
	macros := s.macros()
	for _, m := range s.modeList() {
		for _, it := range m.items {
			if it.rule != nil && s.nullableAlts(it.rule.alts, macros, 0) {
				it.rule.alts = append([][]lterm{}, [][]lterm{{{re: &lre{kind: 0, lit: []int{pick(r, lexAlphabet)}}}}}...)
				it.rule.ng = false
			}
		}
	}
}

// ---- inputs ----

func (s *lspec) genInput(r *rng) []byte {
	macros := s.macros()
	var rules []*lrule
	for _, m := range s.modeList() {
		for _, it := range m.items {
			if it.rule != nil {
				rules = append(rules, it.rule)
			}
		}
	}
	var cps []int
	n := r.intn(8)
	for i := 0; i < n; i++ {
		if r.chance(4, 5) && len(rules) > 0 {
			s.sampleAlts(r, pick(r, rules).alts, macros, 0, &cps)
		} else {
			cps = append(cps, pick(r, lexAlphabet))
		}
	}
	var out []byte
	for _, c := range cps {
		out = utf8.AppendRune(out, rune(c))
	}
	if r.chance(1, 8) && len(out) > 0 {
		// damage: an invalid byte, or cut inside a multi-byte sequence
		switch r.intn(3) {
		case 0:
			pos := r.intn(len(out) + 1)
			out = append(out[:pos], append([]byte{0xFF}, out[pos:]...)...)
		case 1:
			out = out[:r.intn(len(out))]
		default:
			out = append(out, 0xC3)
		}
	}
	return out
}

// genInputErrorInMode: enter a mode through a rule of the default mode that pushes one, provoke a lexical error
// there (the driver skips the rest of the line and calls Reset), then push and pop again and go on in the
// default mode — everything the state machine remembers about modes across an error is exercised.
func (s *lspec) genInputErrorInMode(r *rng) []byte {
	macros := s.macros()
	var pushers, plain []*lrule
	for _, it := range s.items {
		if it.rule == nil {
			continue
		}
		isPush := false
		for _, a := range it.rule.acts {
			if a.kind == "push" {
				isPush = true
			}
		}
		if isPush {
			pushers = append(pushers, it.rule)
		} else {
			plain = append(plain, it.rule)
		}
	}
	if len(pushers) == 0 {
		return s.genInput(r)
	}
	var cps []int
	sample := func(rs []*lrule) {
		if len(rs) > 0 {
			s.sampleAlts(r, pick(r, rs).alts, macros, 0, &cps)
		}
	}
	sample(pushers)
	for k := r.intn(2); k > 0; k-- {
		sample(pushers)
	}
	cps = append(cps, pick(r, []int{0x1F600, 0x01, '~', '#', 0x20AC}), pick(r, lexAlphabet), '\n')
	for round := 1 + r.intn(2); round > 0; round-- {
		sample(pushers)
		if r.chance(1, 2) {
			cps = append(cps, pick(r, lexAlphabet))
		}
		cps = append(cps, '}')
		sample(plain)
		if r.chance(1, 2) {
			cps = append(cps, ' ')
			sample(plain)
		}
	}
	var out []byte
	for _, c := range cps {
		out = utf8.AppendRune(out, rune(c))
	}
	return out
}

// genInputModeWalk: a text that follows the modes — a rule of the CURRENT mode is sampled, its push/pop actions
// are applied to the harness's own mode stack, and so on; rules that switch modes are preferred.  (Longest-match
// may of course lex the text differently; the point is that texts of nested modes occur, and, cut at every
// position in C11, texts that end in the middle of a construct of an inner mode.)
func (s *lspec) genInputModeWalk(r *rng) []byte {
	macros := s.macros()
	byName := map[string]*lmode{}
	for _, m := range s.modeList() {
		byName[m.name] = m
	}
	cur := "$default"
	var stack []string
	var cps []int
	for n := 2 + r.intn(6); n > 0; n-- {
		m := byName[cur]
		var rules, switching []*lrule
		for _, it := range m.items {
			if it.rule == nil {
				continue
			}
			rules = append(rules, it.rule)
			for _, a := range it.rule.acts {
				if a.kind == "push" || a.kind == "pop" {
					switching = append(switching, it.rule)
					break
				}
			}
		}
		if len(rules) == 0 {
			break
		}
		rule := pick(r, rules)
		if len(switching) > 0 && r.chance(1, 2) {
			rule = pick(r, switching)
		}
		s.sampleAlts(r, rule.alts, macros, 0, &cps)
		for _, a := range rule.acts {
			switch a.kind {
			case "push":
				stack = append(stack, cur)
				cur = a.arg
				if cur == "" {
					cur = "$default"
				}
			case "pop":
				if len(stack) > 0 {
					cur = stack[len(stack)-1]
					stack = stack[:len(stack)-1]
				}
			}
		}
		if byName[cur] == nil {
			cur = "$default"
		}
	}
	var out []byte
	for _, c := range cps {
		out = utf8.AppendRune(out, rune(c))
	}
	return out
}

// decodeInput: what bytes.Reader.ReadRune hands the driver
func decodeInput(b []byte) [][2]int {
	var out [][2]int
	for len(b) > 0 {
		r, w := utf8.DecodeRune(b)
		out = append(out, [2]int{int(r), w})
		b = b[w:]
	}
	return out
}
