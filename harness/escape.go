package main

import (
	"fmt"
	"path/filepath"
)

// Correspondence of Gen/EscapeModel.v + ClassModel.unescape with
// internal/parser/parser.go unescape/fixLiteral and with the token language of
// the shipped front-end lexer (hook: loxverif escape).

type escapeReq struct {
	Op  string `json:"op"`
	Lit []int  `json:"lit,omitempty"`
	Src []int  `json:"src,omitempty"`
}
type escapeTok struct {
	Type string `json:"type"`
	Str  []int  `json:"str"`
}
type escapeResp struct {
	Out   []int       `json:"out"`
	Panic string      `json:"panic,omitempty"`
	Toks  []escapeTok `json:"toks,omitempty"`
}

var escPieces = [][]int{
	{92}, {92}, {92, 'n'}, {92, 'r'}, {92, 't'}, {92, 39}, {92, 92}, {92, '-'}, {92, 'q'}, {92, 'x'}, {92, 'u'}, {92, 'U'},
	{92, 'x', '4', '1'}, {92, 'x', 'f', 'F'}, {92, 'x', '8'}, {92, 'x', 'g', '0'}, {92, 'u', '2', '0', 'A', 'C'}, {92, 'u', 'd', '8', '0', '0'},
	{92, 'u', '1', '2'}, {92, 'U', '0', '0', '0', '1', 'F', '6', '0', '0'}, {92, 'U', 'F', 'F', 'F', 'F', 'F', 'F', 'F', 'F'},
	{92, 'U', '0', '0', '1', '1', '0', '0', '0', '0'}, {92, 'U', '0', '0', '0', '0'}, {92, 'U', '8', '0', '0', '0', '0', '0', '0', '0'},
	{'a'}, {'z'}, {'0'}, {'f'}, {'G'}, {' '}, {'-'}, {'-'}, {39}, {'['}, {']'}, {10}, {0}, {127},
	{0xc3, 0xa9}, {0xe2, 0x82, 0xac}, {0xf0, 0x9f, 0x98, 0x80}, {0xff}, {0x80}, {0xc3}, {0xed, 0xa0, 0x80},
}

func genEscBody(r *rng, maxPieces int) []int {
	var out []int
	n := r.intn(maxPieces + 1)
	for i := 0; i < n; i++ {
		if r.chance(1, 8) {
			out = append(out, r.intn(256))
		} else {
			out = append(out, escPieces[r.intn(len(escPieces))]...)
		}
	}
	return out
}

// a body the Literal mode accepts (no bare quote, backslash or newline; complete escapes)
var escGoodLit = [][]int{
	{92, 'n'}, {92, 'r'}, {92, 't'}, {92, 39}, {92, 92}, {92, 'x', '4', '1'}, {92, 'x', 'f', 'F'}, {92, 'u', '2', '0', 'A', 'C'},
	{92, 'u', 'd', '8', '0', '0'}, {92, 'U', '0', '0', '0', '1', 'F', '6', '0', '0'}, {92, 'U', 'F', 'F', 'F', 'F', 'F', 'F', 'F', 'F'},
	{'a'}, {'-'}, {'['}, {' '}, {'x'}, {'u'}, {0xc3, 0xa9}, {0xe2, 0x82, 0xac}, {0xf0, 0x9f, 0x98, 0x80}, {0xff}, {0x80},
}

func bytesOf(s string) []int {
	out := make([]int, len(s))
	for i := 0; i < len(s); i++ {
		out[i] = int(s[i])
	}
	return out
}

// checkEscapes runs the comparison; prop decides the wording only.
func checkEscapes(c *checkCtx) {
	nRaw, nSrc := 500, 120
	if c.thorough() {
		nRaw, nSrc = 8000, 1500
	}
	// ---- (A) unescape on arbitrary byte strings: same panic verdict, same bytes ----
	var raws [][]int
	raws = append(raws, []int{}, []int{92}, []int{92, 'q'}, []int{92, 'x', '4'}, []int{92, 'u', '0', '0', '4', 'g'}, []int{'a', 92})
	for i := 0; i < nRaw; i++ {
		if i%3 == 0 {
			var b []int
			for k := r0(c.rng, 6); k > 0; k-- {
				b = append(b, escGoodLit[c.rng.intn(len(escGoodLit))]...)
			}
			raws = append(raws, b)
		} else {
			raws = append(raws, genEscBody(c.rng, 6))
		}
	}
	var goReqs []escapeReq
	var mreqs []*req
	for _, b := range raws {
		goReqs = append(goReqs, escapeReq{Op: "unescape", Lit: b})
		mreqs = append(mreqs, newReq("escape").i(2).ints(b))
	}
	// ---- (B) the tokens the real front-end lexer produces ----
	var srcs [][]int
	for _, d := range shippedDirs {
		files, _ := filepath.Glob(filepath.Join(repoDir, d, "*.lox"))
		for _, f := range files {
			srcs = append(srcs, bytesOf(readFile(f)))
		}
	}
	for i := 0; i < nSrc; i++ {
		src := bytesOf("@lexer\n")
		for k := 0; k < 4; k++ {
			src = append(src, bytesOf(fmt.Sprintf("T%d = ", k))...)
			src = append(src, 39)
			if c.rng.chance(2, 3) {
				for j := r0(c.rng, 5); j > 0; j-- {
					src = append(src, escGoodLit[c.rng.intn(len(escGoodLit))]...)
				}
			} else {
				src = append(src, genEscBody(c.rng, 5)...)
			}
			src = append(src, 39, ' ', '[')
			src = append(src, genEscBody(c.rng, 6)...)
			src = append(src, ']', 10)
		}
		srcs = append(srcs, src)
	}
	for _, s := range srcs {
		goReqs = append(goReqs, escapeReq{Op: "tokens", Src: s})
	}
	goOut, err := hookJSON[escapeReq, escapeResp]("escape", goReqs)
	if err != nil {
		c.addFinding(finding{Signature: "hook-failed", Desc: err.Error(), NoInput: true, Theorem: "loxverif escape", Replay: map[string]any{}})
		return
	}
	type tokRef struct {
		src  int
		tok  escapeTok
		body []int
	}
	var toks []tokRef
	var goReqs2 []escapeReq
	seenTok := map[string]bool{}
	for i := range srcs {
		for _, t := range goOut[len(raws)+i].Toks {
			if t.Type == "CLASS_DASH" {
				continue
			}
			key := t.Type + fmt.Sprint(t.Str)
			if seenTok[key] {
				continue
			}
			seenTok[key] = true
			body := t.Str
			kind := 1
			if t.Type == "LITERAL" {
				kind = 0
				if len(body) >= 2 {
					body = body[1 : len(body)-1]
				}
			}
			toks = append(toks, tokRef{i, t, body})
			goReqs2 = append(goReqs2, escapeReq{Op: "unescape", Lit: body})
			mreqs = append(mreqs, newReq("escape").i(kind).ints(t.Str))
		}
	}
	goOut2, err := hookJSON[escapeReq, escapeResp]("escape", goReqs2)
	if err != nil {
		c.addFinding(finding{Signature: "hook-failed", Desc: err.Error(), NoInput: true, Theorem: "loxverif escape", Replay: map[string]any{}})
		return
	}
	mOut, err := callModel(mreqs)
	if err != nil {
		c.addFinding(finding{Signature: "model-failed", Desc: err.Error(), NoInput: true, Theorem: "loxmodel escape", Replay: map[string]any{}})
		return
	}
	nPanic, nWf := 0, 0
	compare := func(what string, in []int, wf bool, mOK bool, mBytes []int, g escapeResp, needWf bool) {
		goOK := g.Panic == ""
		if wf {
			nWf++
		}
		if !goOK {
			nPanic++
		}
		if needWf && !goOK {
			c.addFinding(finding{Signature: "front-end-token-panics-unescape",
				Desc:    fmt.Sprintf("the front-end lexer emits the %s %q and unescape panics on it (%s): lox crashes on a grammar containing it", what, string(toB(in)), g.Panic),
				Theorem: "C12_unescape_literal_ok / C12_unescape_class_char_ok",
				Replay:  map[string]any{"token_bytes": in, "kind": what, "go_panic": g.Panic}})
			return
		}
		if needWf && !wf {
			c.addFinding(finding{Signature: "front-end-token-outside-modelled-language",
				Desc:    fmt.Sprintf("the front-end lexer emits the %s %q, which the automaton of Gen/EscapeModel.v does not admit; unescape does not panic on it, so no crashing input is known, but the no-panic theorems no longer cover the lexer's tokens", what, string(toB(in))),
				NoInput: true, Theorem: "correspondence parser.lox Literal/ClassChar modes vs EscapeModel.is_literal_token/is_class_char",
				Replay:  map[string]any{"token_bytes": in, "kind": what}})
			return
		}
		if goOK != mOK || (goOK && !eqInts(g.Out, mBytes)) {
			f := finding{Signature: "unescape-model-mismatch",
				Desc:    fmt.Sprintf("unescape(%v): Go gives %v panic=%q, the model gives ok=%v %v", in, g.Out, g.Panic, mOK, mBytes),
				Theorem: "correspondence parser.go unescape vs ClassModel.unescape/EscapeModel.unescape_bytes",
				Replay:  map[string]any{"input_bytes": in, "go_out": g.Out, "go_panic": g.Panic, "model_ok": mOK, "model_out": mBytes}}
			if wf && !goOK {
				f.Signature = "unescape-panics-on-wellformed-escapes"
				f.Desc = fmt.Sprintf("unescape panics (%s) on %q, whose escape sequences are all well formed", g.Panic, string(toB(in)))
			} else {
				f.NoInput = goOK // a mere difference in bytes / a panic outside the lexer's language is a correspondence break
			}
			c.addFinding(f)
		}
	}
	for i, b := range raws {
		r := mOut[i]
		wf := r.int() == 1
		ok := r.word() == "ok"
		var bs []int
		if ok {
			bs = r.ints()
		}
		c.note("raw:"+fmt.Sprint(b), len(b) > 1)
		compare("byte string", b, wf, ok, bs, goOut[i], false)
	}
	nWfRaw, nPanicRaw := nWf, nPanic
	for i, t := range toks {
		r := mOut[len(raws)+i]
		wf := r.int() == 1
		ok := r.word() == "ok"
		var bs []int
		if ok {
			bs = r.ints()
		}
		c.note("tok:"+t.tok.Type+fmt.Sprint(t.tok.Str), len(t.body) > 1)
		if i < 2 {
			c.sample(map[string]any{"front_end_token": t.tok.Type, "bytes": t.tok.Str, "unescaped": goOut2[i].Out})
		}
		compare(t.tok.Type+" token", t.tok.Str, wf, ok, bs, goOut2[i], true)
	}
	c.cov.Rule += fmt.Sprintf(" ; escapes: unescape compared between parser.go and the Gallina model on %d byte strings (%d with well-formed escapes only, %d on which Go panics — outside the lexer's language) and on %d distinct LITERAL/CLASS_CHAR tokens produced by the real front-end lexer over %d sources, each of which must lie in the modelled token language and must not panic", len(raws), nWfRaw, nPanicRaw, len(toks), len(srcs))
}

func r0(r *rng, n int) int { return r.intn(n + 1) }

func toB(a []int) []byte {
	b := make([]byte, len(a))
	for i, x := range a {
		b[i] = byte(x)
	}
	return b
}
