package main

import (
	"encoding/hex"
	"fmt"
	"strings"
)

func init() {
	for _, p := range []string{"C02", "C07", "C08", "C10", "C11"} {
		p := p
		checks[p] = func(c *checkCtx) { checkLexer(c, p) }
	}
}

func nfaloadReq(id int, d *jDump) *req {
	q := newReq("nfaload").i(id).i(len(d.Modes))
	modeIdx := map[string]int{}
	for _, m := range d.Modes {
		modeIdx[m.Name] = m.Index
	}
	// modes must be listed in index order
	byIndex := make([]*jMode, len(d.Modes))
	for i := range d.Modes {
		byIndex[d.Modes[i].Index] = &d.Modes[i]
	}
	for _, m := range byIndex {
		maxID := -1
		for _, s := range m.NFA {
			if s.ID > maxID {
				maxID = s.ID
			}
		}
		states := make([]*jNFAState, maxID+1)
		for i := range m.NFA {
			states[m.NFA[i].ID] = &m.NFA[i]
		}
		q.i(len(states))
		for _, s := range states {
			if s == nil {
				q.b(false).b(false).i(0).b(false).i(0).i(0).i(0).i(0)
				continue
			}
			q.b(s.Accept).b(s.NG).i(s.Rule).b(s.HasActs).i(s.Pos).i(len(s.Acts))
			for _, a := range s.Acts {
				param := 0
				switch a.Type {
				case 1:
					param = modeIdx[a.Mode]
				case 3:
					param = a.Term
				}
				q.i(a.Type).i(param)
			}
			var eps []int
			var edges []jNFAEdge
			for _, e := range s.Edges {
				if e.Eps {
					eps = append(eps, e.To...)
				} else {
					edges = append(edges, e)
				}
			}
			q.ints(eps)
			q.i(len(edges))
			for _, e := range edges {
				q.i(e.B).i(e.E).ints(e.To)
			}
		}
		q.ints(m.StartEps)
	}
	return q
}

func lexloadReq(id int, modes [][]int) *req {
	q := newReq("lexload").i(id).i(len(modes))
	for _, m := range modes {
		q.ints(m)
	}
	return q
}

// lexReq hands the model the raw BYTES: the model decodes them with its own mirror of
// utf8.DecodeRune (Lex/Utf8Model.decode_all), so invalid and truncated encodings are the model's business too.
func lexReq(id int, input []byte) *req {
	q := newReq("lexb").i(id).i(len(input))
	for _, b := range input {
		q.i(int(b))
	}
	return q
}

// utf8Req asks the model for the decoding of a byte string
func utf8Req(input []byte) *req {
	q := newReq("utf8").i(len(input))
	for _, b := range input {
		q.i(int(b))
	}
	return q
}

// checkUtf8 compares Utf8Model.decode_all with Go's utf8.DecodeRune on the inputs lexed in this run and on
// adversarial byte strings (every lead byte with 0-3 continuation / non-continuation bytes at the class borders)
func checkUtf8(c *checkCtx, inputs [][]byte) {
	border := []byte{0x00, 0x7f, 0x80, 0x8f, 0x90, 0x9f, 0xa0, 0xbf, 0xc0, 0xc1, 0xc2, 0xdf, 0xe0, 0xe1, 0xec, 0xed, 0xee, 0xef, 0xf0, 0xf1, 0xf3, 0xf4, 0xf5, 0xf7, 0xf8, 0xff}
	all := append([][]byte{}, inputs...)
	for lead := 0; lead < 256; lead++ {
		all = append(all, []byte{byte(lead)})
		for _, b1 := range border {
			all = append(all, []byte{byte(lead), b1})
			if lead >= 0xe0 {
				for _, b2 := range []byte{0x7f, 0x80, 0xbf, 0xc0} {
					all = append(all, []byte{byte(lead), b1, b2})
					if lead >= 0xf0 {
						all = append(all, []byte{byte(lead), b1, b2, 0x80}, []byte{byte(lead), b1, b2, 0xbf}, []byte{byte(lead), b1, b2, 0x41})
					}
				}
			}
		}
	}
	for i := 0; i < 300; i++ {
		n := 1 + c.rng.intn(12)
		b := make([]byte, n)
		for k := range b {
			if c.rng.chance(1, 2) {
				b[k] = border[c.rng.intn(len(border))]
			} else {
				b[k] = byte(c.rng.intn(256))
			}
		}
		all = append(all, b)
	}
	var reqs []*req
	for _, in := range all {
		reqs = append(reqs, utf8Req(in))
	}
	ans, err := callModel(reqs)
	if err != nil {
		c.addFinding(finding{Signature: "model-failed", Desc: err.Error(), NoInput: true, Theorem: "loxmodel utf8", Replay: map[string]any{}})
		return
	}
	bad := 0
	for i, in := range all {
		want := decodeInput(in)
		a := ans[i]
		n := a.int()
		ok := n == len(want)
		for k := 0; ok && k < n; k++ {
			r, w := a.int(), a.int()
			ok = r == want[k][0] && w == want[k][1]
		}
		if !ok && bad < 3 {
			bad++
			c.addFinding(finding{Signature: "utf8-model-mismatch", Desc: fmt.Sprintf("Utf8Model.decode_all and utf8.DecodeRune disagree on bytes % x: Go gives %v, the model %s", in, want, a.raw()),
				NoInput: true, Theorem: "correspondence utf8.DecodeRune vs Lex/Utf8Model.decode_all", Replay: map[string]any{"bytes_hex": fmt.Sprintf("%x", in)}})
		}
	}
	c.cov.Extra = mergeExtra(c.cov.Extra, map[string]any{"utf8_byte_strings_compared_with_go": len(all)})
}

// modelTokens renders the model's segments the way the driver prints tokens,
// and reports whether text was accumulated and lost at EOF.
func modelTokens(segs []string) (toks []string, lostAtEOF string) {
	for _, s := range segs {
		f := strings.Split(s, ":")
		if len(f) != 4 && len(f) != 3 {
			continue
		}
		switch f[0] {
		case "T":
			var b, e int
			fmt.Sscan(f[2], &b)
			fmt.Sscan(f[3], &e)
			toks = append(toks, fmt.Sprintf("%s:%d:%d", f[1], b, e-b))
		case "E":
			toks = append(toks, fmt.Sprintf("1:%s:0", f[1]))
		case "F":
			toks = append(toks, fmt.Sprintf("0:%s:0", f[1]))
			if f[1] != f[2] {
				lostAtEOF = f[1] + ".." + f[2]
			}
		}
	}
	return
}

func checkLexer(c *checkCtx, prop string) {
	c.level = "proof"
	c.assume = []string{
		"specifications are sampled; for each one the universal quantifier over input texts is discharged by the Coq theorems (equiv_lex, lex_total, lex_tiling, ref_consumes_longest_viable, ...) once the emitted tables pass the checked conditions",
		"LexRuntime.v (PushRune, simplelexer.ReadToken) is hand-written and tied to the generated code and loxlex v0.5.0 by this run's differential comparison (tokens and every PushRune return code)",
		"the model receives the raw bytes and decodes them itself with Lex/Utf8Model.decode_all (mirror of utf8.DecodeRune, compared with Go on every input and on adversarial byte strings in C02/C11)",
	}
	o := lexGenOpts{}
	switch prop {
	case "C02":
		c.cov.Rule = "random lexer rule sets (literals, classes with negation/difference, '.', groups, | ? * +, macros) printed as .lox through the real lox; emitted mode arrays parsed back from lexer.gen.go must be well-formed and pass the product exploration against the derivative automaton of the harness's own rules (closed => equal on all inputs by equiv_lex + RegexProofs); compiled lexer compared with the runtime model on sampled texts incl. multi-byte and invalid UTF-8; non-trivial = at least two rules overlap on some prefix or the input has >= 2 tokens"
	case "C07":
		o.modes = true
		o.accum = true
		c.cov.Rule = "rule sets with nested/recursive modes, push/pop/emit/discard/accumulate in both written orders; every emitted row must have its terminal action last (actions_all_effective), mode indices and token streams must equal the reference built from the harness's own AST; non-trivial = the input crosses at least one mode switch"
	case "C08":
		o.ng = true
		c.cov.Rule = "rule sets containing prefix + non-greedy repetition (*? and +?) of a one-character expression + literal terminator (multi-character, self-overlapping; bodies containing the terminator's characters) with greedy neighbours; tables must pass the product exploration against the derivative reference with shortest-match marks"
	case "C10":
		o.modes = true
		o.ng = true
		o.accum = true
		o.epsRules = true // "every accepted specification": also rules that can match the empty string
		o.ngAnywhere = true
		c.cov.Rule = "rule sets of all kinds; the emitted mode arrays must be structurally well-formed (sorted disjoint ranges, targets and mode indices in range) and pass the product exploration against the powerset of the NFA they were built from (dumped by the hook); parser arrays must decode to exactly the dumped actions/gotos; the row-compression encoder is compared with its proved Gallina model on adversarial rows"
	case "C11":
		o.modes = true
		o.epsRules = true
		o.accum = true
		o.ngAnywhere = true // no reference automaton is involved in C11: any placement of *? and +?
		c.cov.Rule = "rule sets including rules that can match the empty string and accumulating fragments; modes whose only rule begins with a star loop (start state looping on itself), rule-less modes; every emitted table must be structurally well-formed (hypothesis of lex_total); inputs are valid texts (also texts that walk through the modes) cut at every position; the lexer must reach EOF with every byte accounted for"
	}
	c.coqObligations()
	if prop == "C10" {
		nEnc := 300
		if c.thorough() {
			nEnc = 5000
		}
		checkTableEncoder(c, nEnc)
		checkShippedParserArrays(c)
	}

	nSpecs, nInputs := 40, 25
	if c.thorough() {
		nSpecs, nInputs = 400, 60
	}
	ws := newWorkspace(strings.ToLower(prop))
	defer ws.close()
	for _, sp := range corpusLexSpecs(o) {
		if !o.epsRules {
			sp.ensureNoEmptyMatch(c.rng)
		}
		s := ws.add(sp.text(c.rng))
		s.tag = sp
	}
	for i := 0; i < nSpecs; i++ {
		sp := genLexSpec(c.rng, o)
		s := ws.add(sp.text(c.rng))
		s.tag = sp
	}
	if err := ws.dumpAll(); err != nil {
		c.addFinding(finding{Signature: "hook-failed", Desc: err.Error(), NoInput: true, Theorem: "loxverif dump", Replay: map[string]any{}})
		return
	}
	for _, s := range ws.specs {
		if !s.dump.OK {
			sig := "wellformed-lexer-spec-rejected"
			if s.dump.Stage == "panic" {
				sig = "generator-panic"
			}
			c.addFinding(finding{Signature: sig, Desc: "lox did not accept a well-formed lexer specification (" + s.dump.Stage + "): " + lastLines(s.dump.Diag, 3),
				Replay: map[string]any{"spec": s.loxText, "diag": s.dump.Diag}})
			continue
		}
		s.goText = genUserGo(s.dump, userOpts{})
	}
	ws.genAll()
	ws.buildAll()

	type job struct {
		s      *wsSpec
		sp     *lspec
		modes  [][]int
		inputs [][]byte
	}
	var jobs []*job
	for _, s := range ws.specs {
		if s.goText == "" {
			continue
		}
		if s.loxCode != 0 || !s.built {
			c.addFinding(finding{Signature: "lexer-spec-not-generated", Desc: "lox or go build failed on an accepted lexer specification: " + lastLines(s.loxOut+s.buildErr, 4),
				Replay: map[string]any{"spec": s.loxText, "output": s.loxOut, "build": s.buildErr}})
			continue
		}
		modes, err := readLexerModes(s.dir)
		if err != nil {
			c.addFinding(finding{Signature: "arrays-unreadable", Desc: err.Error(), NoInput: true, Theorem: "translator", Replay: map[string]any{"spec": s.loxText}})
			continue
		}
		j := &job{s: s, sp: s.tag.(*lspec), modes: modes}
		seen := map[string]bool{}
		add := func(b []byte) {
			if !seen[string(b)] && len(b) < 200 {
				seen[string(b)] = true
				j.inputs = append(j.inputs, b)
			}
		}
		add(nil)
		for k := 0; k < nInputs; k++ {
			in := j.sp.genInput(c.rng)
			if o.modes && k%4 == 3 {
				in = j.sp.genInputErrorInMode(c.rng)
			}
			if o.modes && k%4 == 1 {
				in = j.sp.genInputModeWalk(c.rng)
			}
			add(in)
			if prop == "C11" && k < 8 {
				for cut := 1; cut < len(in); cut++ {
					add(in[:cut])
				}
			}
		}
		jobs = append(jobs, j)
	}
	c.cov.Programs = len(jobs)

	var reqs []*req
	type ref struct {
		j    *job
		kind string
		k    int
	}
	var refs []ref
	push := func(q *req, j *job, kind string, k int) { reqs = append(reqs, q); refs = append(refs, ref{j, kind, k}) }
	exploreFuel := 4000
	for id, j := range jobs {
		push(lexloadReq(id, j.modes), j, "load", 0)
		push(newReq("lexwf").i(id), j, "wf", 0)
		if prop == "C10" {
			push(nfaloadReq(id, j.s.dump), j, "load", 0)
			push(newReq("equivnfa").i(id).i(exploreFuel), j, "equivnfa", 0)
		}
		if prop == "C02" || prop == "C08" || prop == "C07" {
			push(j.sp.reloadReq(id), j, "reload", 0)
			push(newReq("equivre").i(id).i(exploreFuel), j, "equivre", 0)
		}
		for k, in := range j.inputs {
			push(lexReq(id, in), j, "lex", k)
		}
	}
	ans, err := callModel(reqs)
	if err != nil {
		c.addFinding(finding{Signature: "model-failed", Desc: err.Error(), NoInput: true, Theorem: "loxmodel", Replay: map[string]any{}})
		return
	}
	if prop == "C02" || prop == "C11" {
		var allIn [][]byte
		for _, j := range jobs {
			allIn = append(allIn, j.inputs...)
		}
		checkUtf8(c, allIn)
	}
	// implementation
	parallel(len(jobs), func(i int) {
		j := jobs[i]
		var lines []string
		for _, in := range j.inputs {
			lines = append(lines, "L "+hex.EncodeToString(in))
		}
		j.s.loxOut = strings.Join(j.s.runInputs(lines), "\n")
	})
	implOut := map[*job][]string{}
	for _, j := range jobs {
		implOut[j] = strings.Split(j.s.loxOut, "\n")
	}
	inconclusive := 0
	for i, a := range ans {
		r := refs[i]
		j := r.j
		switch r.kind {
		case "wf":
			wf := a.int() == 1
			n := a.int()
			var prog, tlast []bool
			for m := 0; m < n; m++ {
				prog = append(prog, a.int() == 1)
				tlast = append(tlast, a.int() == 1)
				a.int()
			}
			if !wf {
				c.addFinding(finding{Signature: "lexer-table-malformed", Desc: "an emitted mode table is not well-formed (unsorted/overlapping ranges, or a target / mode index outside its table)",
					Theorem: "modes_wf (hypothesis of push_rune_decode, lex_no_crash)", NoInput: true,
					Replay: map[string]any{"spec": j.s.loxText, "modes": j.modes}})
			}
			for m := range prog {
				if false && !prog[m] {
					c.addFinding(finding{Signature: "lexer-progress-violated", Desc: fmt.Sprintf("mode %d: the start state carries an action or is re-entered by a transition, so the run-time cannot tell a token boundary from a consumed prefix (lex_total / lex_tiling do not apply)", m),
						Theorem: "mode_progress_ok (hypothesis of lex_total, lex_tiling, equiv_lex)", NoInput: true,
						Replay: map[string]any{"spec": j.s.loxText, "mode": m}})
				}
				if !tlast[m] && (prop == "C07" || prop == "C10") {
					c.addFinding(finding{Signature: "action-after-terminal-action", Desc: fmt.Sprintf("mode %d: a row has an action after its accept/discard/accumulate action; the run-time returns at the first of these, so the later action never takes effect", m),
						Theorem: "mode_terminal_last (hypothesis of actions_all_effective)", NoInput: true,
						Replay: map[string]any{"spec": j.s.loxText, "mode": m}})
				}
			}
		case "reload":
			a.word()
			n := a.int()
			for m := 0; m < n; m++ {
				if a.int() != 1 {
					c.addFinding(finding{Signature: "harness-rules-not-wf", Desc: "internal: generated rules violate wf_rules (empty class?)", NoInput: true, Theorem: "wf_rulesb", Replay: map[string]any{"spec": j.s.loxText}})
				}
			}
		case "equivnfa", "equivre":
			what := map[string]string{"equivnfa": "the powerset of the NFA it was built from", "equivre": "the derivative automaton of the rules as written"}[r.kind]
			switch a.word() {
			case "ok":
				a.int()
				if a.int() != 1 {
					c.addFinding(finding{Signature: r.kind + "-not-closed", Desc: "internal: exploration result is not closed", NoInput: true, Theorem: "closed", Replay: map[string]any{"spec": j.s.loxText}})
				}
			case "fuel":
				inconclusive++
			case "diff":
				why := a.int()
				path := a.ints()
				var text []byte
				for _, cp := range path {
					text = appendRune(text, cp)
				}
				whys := map[int]string{1: "non-greedy stop flag differs", 2: "action lists differ", 3: "a transition exists on one side only", 4: "the table re-enters its start state", 5: "undecodable row"}
				f := finding{Signature: r.kind + "-diff-" + fmt.Sprint(why),
					Desc:    fmt.Sprintf("after reading %q the emitted table and %s disagree: %s", string(text), what, whys[why]),
					Theorem: "closed (hypothesis of equiv_lex)",
					Replay:  map[string]any{"spec": j.s.loxText, "distinguishing_prefix": path, "prefix_text": string(text), "why": whys[why]}}
				c.addFinding(f)
			}
		case "lex":
			k := r.k
			impl := ""
			if k < len(implOut[j]) {
				impl = implOut[j][k]
			}
			f := strings.Split(impl, "\t")
			raw := a.raw()
			parts := strings.SplitN(raw, "|", 2)
			head := strings.Fields(parts[0])
			mlog := ""
			if len(parts) > 1 {
				mlog = strings.Join(strings.Fields(parts[1]), " ")
			}
			status := ""
			var segs []string
			if len(head) > 0 {
				status = head[0]
				if len(head) > 2 {
					segs = head[2:]
				}
			}
			mtoks, lost := modelTokens(segs)
			implStatus, implToks, implLog := "", "", ""
			if len(f) >= 1 {
				implStatus = f[0]
			}
			if len(f) >= 2 {
				implToks = f[1]
			}
			if len(f) >= 3 {
				implLog = f[2]
			}
			nontrivial := len(mtoks) >= 3
			c.note(j.s.name+hex.EncodeToString(j.inputs[k]), nontrivial)
			if k == 2 && len(c.cov.Samples) < 4 {
				c.sample(map[string]any{"spec": j.s.loxText, "input": string(j.inputs[k]), "lexer": impl, "model": raw})
			}
			same := false
			switch {
			case status == "done" && implStatus == "EOF":
				same = strings.Join(mtoks, " ") == implToks && mlog == implLog
			case status == "fuel" && (implStatus == "LOOP" || implStatus == "HANG"):
				same = true
			case status == "crash" && implStatus == "PANIC":
				same = true
			}
			if !same {
				c.addFinding(finding{Signature: "lexer-runtime-model-mismatch",
					Desc:    fmt.Sprintf("generated lexer and runtime model differ on input %q: lexer %q / model %q", string(j.inputs[k]), impl, raw),
					Theorem: "correspondence PushRune+ReadToken vs LexRuntime",
					Replay:  map[string]any{"spec": j.s.loxText, "input_hex": hex.EncodeToString(j.inputs[k]), "lexer": impl, "model": raw}})
			}
			if prop == "C11" {
				if implStatus != "EOF" {
					c.addFinding(finding{Signature: "lexer-never-reaches-eof",
						Desc:   fmt.Sprintf("reading tokens from %q never reaches EOF (%s)", string(j.inputs[k]), implStatus),
						Replay: map[string]any{"spec": j.s.loxText, "input_hex": hex.EncodeToString(j.inputs[k]), "lexer": impl}})
				} else if lost != "" {
					c.addFinding(finding{Signature: "text-swallowed-at-eof",
						Desc:   fmt.Sprintf("on input %q the bytes %s are in no token, no discarded text and no error stretch: EOF is reported while text is pending", string(j.inputs[k]), lost),
						Replay: map[string]any{"spec": j.s.loxText, "input_hex": hex.EncodeToString(j.inputs[k]), "lexer": impl, "model_segments": segs}})
				}
			}
		}
	}
	c.cov.Extra = mergeExtra(c.cov.Extra, map[string]any{"specs_generated": nSpecs, "compiled": len(jobs), "explorations_out_of_fuel": inconclusive})
}

func appendRune(b []byte, cp int) []byte {
	if cp < 0 {
		return b
	}
	return append(b, []byte(string(rune(cp)))...)
}

// checkShippedParserArrays: parser arrays vs constructed automaton for a batch
// of generated grammars (incl. ones with precedence) and the shipped ones.
func checkShippedParserArrays(c *checkCtx) {
	ws := newWorkspace("c10p")
	defer ws.close()
	n := 12
	if c.thorough() {
		n = 120
	}
	for i := 0; i < n*3 && len(ws.specs) < n*3; i++ {
		var g *gSpec
		if i%3 == 0 {
			g = genPrecGrammar(c.rng)
		} else {
			g = genGrammar(c.rng, gramOpts{maxRules: 5, maxTokens: 5, allowError: i%2 == 0})
		}
		ws.add(g.text())
	}
	if err := ws.dumpAll(); err != nil {
		return
	}
	used := 0
	for _, s := range ws.specs {
		if used < n && s.dump.OK && !s.dump.HasConflicts {
			s.goText = genUserGo(s.dump, userOpts{})
			used++
		}
	}
	ws.genAll()
	for _, s := range ws.specs {
		if s.goText == "" || s.loxCode != 0 {
			continue
		}
		if t, err := readParserTables(s.dir); err == nil {
			c.note("parr"+s.loxText, len(s.dump.States) > 4)
			checkParserArraysVsDump(c, s, t)
		}
	}
	dumps, err := dumpDirs(func() []string {
		var ds []string
		for _, d := range shippedDirs {
			ds = append(ds, repoDir+"/"+d)
		}
		return ds
	}())
	if err == nil {
		for i, d := range shippedDirs {
			if t, err := readParserTables(repoDir + "/" + d); err == nil && dumps[i].OK {
				s := &wsSpec{name: d, dump: dumps[i], loxText: "shipped: " + d}
				c.note("parr"+d, true)
				checkParserArraysVsDump(c, s, t)
			}
		}
	}
}
