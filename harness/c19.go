package main

import (
	"fmt"
	"os"
	"path/filepath"
	"regexp"
	"sort"
	"strconv"
	"strings"
	"time"
)

func init() { checks["C19"] = checkC19 }

func numberingEnc(q *req, items []litem) {
	q.i(len(items))
	for _, it := range items {
		switch {
		case it.rule != nil && !it.rule.frag:
			q.i(0)
			q.sb.WriteString(" " + it.rule.name)
		case it.ext != nil:
			q.i(1).i(len(it.ext))
			for _, n := range it.ext {
				q.sb.WriteString(" " + n)
			}
		case it.mode != nil:
			q.i(2)
			numberingEnc(q, it.mode.items)
		default:
			q.i(3)
		}
	}
}

var constRe = regexp.MustCompile(`(?m)^\s*([A-Za-z_][A-Za-z0-9_]*)\s+int\s*=\s*(\d+)\s*$`)

func checkC19(c *checkCtx) {
	c.level = "proof"
	c.cov.Rule = "lexer specifications with tokens in several modes, @external names, tokens only produced by @emit, tokens the parser never mentions, spread over 1-3 files; the constant block and _TokenToString of the generated base.gen.go (read back from the file / called in the compiled package, also on out-of-range values), the terminal numbering inside lox, the accept parameters in the lexer tables (product exploration against the rules with the model's numbers) and the keys of the parser tables are compared with the Gallina numbering model (terminals / token_to_string); non-trivial = at least one mode or external and >= 4 tokens"
	c.assume = []string{"Gen/Numbering.v is tied to lox by this comparison; its density/bijection/totality theorems are proved for all specifications"}
	c.coqObligations()
	n := 30
	if c.thorough() {
		n = 300
	}
	ws := newWorkspace("c19")
	defer ws.close()
	type meta struct {
		sp     *lspec
		chunks [][]litem
	}
	for i := 0; i < n; i++ {
		sp := genLexSpec(c.rng, lexGenOpts{modes: c.rng.chance(2, 3), accum: true})
		// sprinkle @external declarations
		for k := c.rng.intn(3); k > 0; k-- {
			pos := c.rng.intn(len(sp.items) + 1)
			ext := litem{ext: []string{fmt.Sprintf("EXT%d_%d", i%7, k)}}
			if c.rng.chance(1, 2) {
				ext.ext = append(ext.ext, fmt.Sprintf("XT%d_%dB", i%5, k))
			}
			sp.items = append(sp.items[:pos], append([]litem{ext}, sp.items[pos:]...)...)
		}
		nf := 1 + c.rng.intn(3)
		if nf > len(sp.items) {
			nf = 1
		}
		var chunks [][]litem
		per := (len(sp.items) + nf - 1) / nf
		for a := 0; a < len(sp.items); a += per {
			b := a + per
			if b > len(sp.items) {
				b = len(sp.items)
			}
			chunks = append(chunks, sp.items[a:b])
		}
		// a tiny parser section over two of the tokens, in the last file
		var toks []string
		for _, t := range sp.terminals()[2:] {
			if strings.HasPrefix(t, "T") {
				toks = append(toks, t)
			}
		}
		files := map[string]string{}
		for k, ch := range chunks {
			var sb strings.Builder
			sb.WriteString("@lexer\n")
			itemsText(c.rng, ch, "", &sb)
			if k == len(chunks)-1 && len(toks) >= 2 {
				fmt.Fprintf(&sb, "@parser\n@start s = %s s | %s\n", toks[0], toks[len(toks)-1])
			}
			files[fmt.Sprintf("%c.lox", 'a'+k)] = sb.String()
		}
		s := ws.addFiles(files)
		s.tag = &meta{sp: sp, chunks: chunks}
	}
	if err := ws.dumpAll(); err != nil {
		c.addFinding(finding{Signature: "hook-failed", Desc: err.Error(), NoInput: true, Theorem: "loxverif dump", Replay: map[string]any{}})
		return
	}
	var jobs []*wsSpec
	for _, s := range ws.specs {
		if !s.dump.OK {
			// two files whose rules overlap are refused ("Conflicting lexer actions"): not a numbering matter
			if strings.Contains(s.dump.Diag, "Conflicting lexer actions") && s.dump.Stage != "panic" {
				continue
			}
			c.addFinding(finding{Signature: "wellformed-spec-rejected", Desc: "lox did not accept a well-formed specification (" + s.dump.Stage + "): " + lastLines(s.dump.Diag, 3),
				Replay: map[string]any{"spec": s.loxText, "diag": s.dump.Diag}})
			continue
		}
		if s.dump.HasConflicts {
			continue
		}
		s.goText = genUserGo(s.dump, userOpts{})
		jobs = append(jobs, s)
	}
	// every second directory first holds the output of a DIFFERENT terminal set (two extra @external names in
	// front), then gets its real specification back with file times in the past: the constants must be the ones of
	// the specification that is there now, whatever an earlier run left behind
	staged := 0
	for k, s := range jobs {
		if k%2 == 1 {
			continue
		}
		files, _ := filepath.Glob(filepath.Join(s.dir, "*.lox"))
		sort.Strings(files)
		for _, f := range files {
			orig, err := os.ReadFile(f)
			if err != nil || !strings.Contains(string(orig), "@lexer\n") {
				continue
			}
			decoy := strings.Replace(string(orig), "@lexer\n", "@lexer\n@external DECOY_A DECOY_B\n", 1)
			os.WriteFile(f, []byte(decoy), 0o644)
			os.WriteFile(filepath.Join(s.dir, "parser.go"), []byte(s.goText), 0o644)
			run(ws.dir, 5*time.Minute, nil, loxBin, s.dir)
			os.WriteFile(f, orig, 0o644)
			past := time.Now().Add(-2 * time.Hour)
			for _, g := range files {
				os.Chtimes(g, past, past)
			}
			staged++
			break
		}
	}
	c.cov.Extra = mergeExtra(c.cov.Extra, map[string]any{"directories_holding_an_earlier_runs_output": staged})
	ws.genAll()
	ws.buildAll()
	var reqs []*req
	numAns := map[*wsSpec]int{}
	eqAns := map[*wsSpec]int{}
	probes := []int{-1, -7, 500}
	for id, s := range jobs {
		m := s.tag.(*meta)
		q := newReq("numbering").i(len(m.chunks))
		for _, ch := range m.chunks {
			numberingEnc(q, ch)
		}
		nt := len(m.sp.terminals())
		ps := append([]int{}, probes...)
		for t := 0; t <= nt+1; t++ {
			ps = append(ps, t)
		}
		q.ints(ps)
		numAns[s] = len(reqs)
		reqs = append(reqs, q)
		eqAns[s] = -1
		if s.loxCode == 0 && s.built {
			if modes, err := readLexerModes(s.dir); err == nil {
				reqs = append(reqs, lexloadReq(id, modes), m.sp.reloadReq(id), newReq("equivre").i(id).i(3000))
				eqAns[s] = len(reqs) - 1
			}
		}
	}
	ans, err := callModel(reqs)
	if err != nil {
		c.addFinding(finding{Signature: "model-failed", Desc: err.Error(), NoInput: true, Theorem: "loxmodel", Replay: map[string]any{}})
		return
	}
	for _, s := range jobs {
		m := s.tag.(*meta)
		a := ans[numAns[s]]
		nt := a.int()
		var names []string
		for i := 0; i < nt; i++ {
			names = append(names, a.word())
		}
		var strs []string
		for a.p < len(a.toks) {
			strs = append(strs, a.word())
		}
		bad := func(sig, desc string, extra map[string]any) {
			extra["spec"] = s.loxText
			extra["model_terminals"] = names
			c.addFinding(finding{Signature: sig, Desc: desc, Replay: extra, Theorem: "correspondence with Gen/Numbering.terminals"})
		}
		hasMode := len(m.sp.modeList()) > 1
		c.note(s.loxText, nt >= 6 && hasMode)
		if len(c.cov.Samples) < 3 {
			c.sample(map[string]any{"files": s.files, "terminals": names})
		}
		// (a) inside lox
		var dn []string
		for i, t := range s.dump.Terminals {
			if t.Index != i {
				bad("terminal-index-not-dense", fmt.Sprintf("terminal %s has index %d at position %d", t.Name, t.Index, i), map[string]any{})
			}
			dn = append(dn, t.Name)
		}
		if strings.Join(dn, " ") != strings.Join(names, " ") {
			bad("terminal-numbering-differs", fmt.Sprintf("lox numbers the terminals %v, declaration order gives %v", dn, names), map[string]any{"lox": dn})
		}
		if s.loxCode != 0 || !s.built {
			bad("spec-not-generated", "lox or go build failed: "+lastLines(s.loxOut+s.buildErr, 3), map[string]any{})
			continue
		}
		// (b) constants in base.gen.go
		src, _ := os.ReadFile(filepath.Join(s.dir, "base.gen.go"))
		consts := map[string]int{}
		var order []string
		for _, mm := range constRe.FindAllStringSubmatch(string(src), -1) {
			v, _ := strconv.Atoi(mm[2])
			if _, dup := consts[mm[1]]; dup {
				bad("constant-defined-twice", "constant "+mm[1]+" appears twice in base.gen.go", map[string]any{})
			}
			consts[mm[1]] = v
			order = append(order, mm[1])
		}
		if len(consts) != len(names) {
			bad("constant-count-differs", fmt.Sprintf("base.gen.go defines %d constants for %d terminals", len(consts), len(names)), map[string]any{"constants": order})
		}
		for i, nme := range names {
			if v, ok := consts[nme]; !ok || v != i {
				bad("constant-value-differs", fmt.Sprintf("constant %s = %d (present %v), expected %d", nme, v, ok, i), map[string]any{"constants": consts})
				break
			}
		}
		// (c) _TokenToString on every index and on out-of-range values
		ps := append([]int{}, probes...)
		for t := 0; t <= len(m.sp.terminals())+1; t++ {
			ps = append(ps, t)
		}
		var sb strings.Builder
		sb.WriteString("S")
		for _, v := range ps {
			fmt.Fprintf(&sb, " %d", v)
		}
		out := s.runInputs([]string{sb.String()})
		if len(out) != 1 || out[0] != strings.Join(strs, " ") {
			bad("token-to-string-differs", fmt.Sprintf("_TokenToString on %v gives %q, the model %q", ps, out, strings.Join(strs, " ")), map[string]any{"probes": ps})
		}
		// (d) accept parameters in the lexer tables carry the same numbers
		if eqAns[s] < 0 {
			continue
		}
		v := ans[eqAns[s]]
		switch v.word() {
		case "diff":
			why := v.int()
			path := v.ints()
			bad("lexer-table-token-number-differs", fmt.Sprintf("the lexer tables disagree with the rules numbered by the model after reading code points %v (reason %d)", path, why), map[string]any{"path": path})
		}
	}
	c.cov.Programs = len(jobs)
}
