package main

import (
	"fmt"
	"sort"
	"strconv"
)

type tableReq struct {
	Indices []int   `json:"indices"`
	Rows    [][]int `json:"rows"`
}
type tableResp struct {
	Arr   []int  `json:"arr"`
	Panic string `json:"panic"`
}

// checkTableEncoder: the Go row-compression encoder against its proved model
// on random and adversarial rows (values differing by multiples of 128, 256,
// 2^31-ish, duplicates far apart, empty rows, gaps, non-monotone indices).
func checkTableEncoder(c *checkCtx, n int) {
	special := []int{0, 1, -1, 63, 64, -64, -65, 127, 128, 255, 256, 16383, 16384, 1 << 20, -(1 << 20), 2147483647, -2147483648, 2147483646}
	var cases []tableReq
	for k := 0; k < n; k++ {
		var tr tableReq
		nr := 1 + c.rng.intn(8)
		idx := 0
		var pool [][]int
		for i := 0; i < nr; i++ {
			if c.rng.chance(1, 4) {
				idx += 1 + c.rng.intn(3) // gap
			}
			if k%17 == 16 && i == nr-1 && nr > 1 {
				idx = tr.Indices[0] // violates monotonicity: the Go code panics, the model says none
			}
			var row []int
			if len(pool) > 0 && c.rng.chance(1, 3) {
				row = append([]int{}, pick(c.rng, pool)...)
				if c.rng.chance(1, 4) && len(row) > 0 {
					k := c.rng.intn(len(row))
					row[k] += pick(c.rng, []int{128, 256, -128, 1})
					if row[k] > 2147483647 || row[k] < -2147483648 {
						row[k] = 0
					}
				}
			} else {
				l := c.rng.intn(7)
				for j := 0; j < l; j++ {
					if c.rng.chance(1, 2) {
						row = append(row, pick(c.rng, special))
					} else {
						row = append(row, c.rng.intn(400)-100)
					}
				}
			}
			if i > 0 && c.rng.chance(1, 4) {
				// a row that collides with an earlier one under a careless sharing key (digits or hex digits
				// concatenated without separator, sums, permutations, sign or zero padding)
				row = collidingRow(c.rng, pool[c.rng.intn(len(pool))])
			}
			if row == nil {
				row = []int{}
			}
			pool = append(pool, row)
			tr.Indices = append(tr.Indices, idx)
			tr.Rows = append(tr.Rows, row)
			idx++
		}
		cases = append(cases, tr)
	}
	goOut, err := hookJSON[tableReq, tableResp]("table", cases)
	if err != nil {
		c.addFinding(finding{Signature: "hook-failed", Desc: err.Error(), NoInput: true, Theorem: "correspondence table.go", Replay: map[string]any{}})
		return
	}
	var reqs []*req
	for _, tr := range cases {
		q := newReq("tableenc").i(len(tr.Rows))
		for i, r := range tr.Rows {
			q.i(tr.Indices[i]).ints(r)
		}
		reqs = append(reqs, q)
	}
	ans, err := callModel(reqs)
	if err != nil {
		c.addFinding(finding{Signature: "model-failed", Desc: err.Error(), NoInput: true, Theorem: "loxmodel", Replay: map[string]any{}})
		return
	}
	for i, tr := range cases {
		c.note(fmt.Sprint("table", tr), len(tr.Rows) > 2)
		g, m := goOut[i], ans[i]
		w := m.word()
		same := false
		if g.Panic != "" {
			same = w == "none"
		} else if w == "some" {
			same = eqInts(g.Arr, m.ints())
		}
		if !same {
			c.addFinding(finding{Signature: "table-encoder-mismatch",
				Desc:    fmt.Sprintf("table.AddRow/Array on indices %v rows %v gives %v (panic %q), the proved model gives %s", tr.Indices, tr.Rows, g.Arr, g.Panic, m.raw()),
				Theorem: "correspondence codegen.table vs Gen/TableEnc.build",
				Replay:  map[string]any{"indices": tr.Indices, "rows": tr.Rows, "go": g, "model": m.raw()}})
		}
	}
}

// checkParserArraysVsDump: the emitted _actions/_goto/_rules/_termCounts,
// decoded by their row format, contain exactly the actions and gotos of the
// automaton lox constructed (dump), keyed by terminal / rule index.
func checkParserArraysVsDump(c *checkCtx, s *wsSpec, t *parserTables) {
	d := s.dump
	bad := func(desc string, extra map[string]any) {
		extra["spec"] = s.loxText
		c.addFinding(finding{Signature: "parser-arrays-differ-from-automaton", Desc: desc, Replay: extra,
			Theorem: "decode(_actions/_goto) = ParserTable (C10_find_is_assoc gives decode for all row lists)"})
	}
	row := func(arr []int, st int) (map[int]int, bool) {
		if st < 0 || st >= len(arr) {
			return nil, false
		}
		off := arr[st]
		if off < 0 || off >= len(arr) {
			return nil, false
		}
		n := arr[off]
		if n < 0 || n%2 != 0 || off+1+n > len(arr) {
			return nil, false
		}
		m := map[int]int{}
		for i := off + 1; i < off+1+n; i += 2 {
			if _, dup := m[arr[i]]; dup {
				return nil, false
			}
			m[arr[i]] = arr[i+1]
		}
		return m, true
	}
	if len(t.rules) != len(d.Prods) || len(t.termCounts) != len(d.Prods) {
		bad("_rules/_termCounts have the wrong length", map[string]any{})
		return
	}
	for i, p := range d.Prods {
		if t.rules[i] != p.Rule || t.termCounts[i] != len(p.Terms) {
			bad(fmt.Sprintf("production %d: _rules=%d _termCounts=%d, grammar has rule %d with %d terms", i, t.rules[i], t.termCounts[i], p.Rule, len(p.Terms)), map[string]any{})
		}
	}
	for _, st := range d.States {
		am, ok := row(t.actions, st.Index)
		gm, ok2 := row(t.gotos, st.Index)
		if !ok || !ok2 {
			bad(fmt.Sprintf("state %d: row not decodable (offset or length outside the array, odd length, duplicate key)", st.Index), map[string]any{"state": st.Index})
			continue
		}
		want := map[int]int{}
		for _, ar := range st.Actions {
			if len(ar.Acts) != 1 {
				continue
			}
			a := ar.Acts[0]
			switch a.Type {
			case 0:
				want[ar.Term] = a.Shift
			case 1:
				want[ar.Term] = -a.Prods[0]
			default:
				want[ar.Term] = 2147483647
			}
		}
		wantG := map[int]int{}
		for _, tr := range st.Trans {
			if !tr.Sym.T {
				wantG[tr.Sym.I] = tr.To
			}
		}
		if fmt.Sprint(sortedMap(am)) != fmt.Sprint(sortedMap(want)) {
			bad(fmt.Sprintf("state %d: action row %v, automaton has %v", st.Index, sortedMap(am), sortedMap(want)), map[string]any{"state": st.Index})
		}
		if fmt.Sprint(sortedMap(gm)) != fmt.Sprint(sortedMap(wantG)) {
			bad(fmt.Sprintf("state %d: goto row %v, automaton has %v", st.Index, sortedMap(gm), sortedMap(wantG)), map[string]any{"state": st.Index})
		}
	}
}

func sortedMap(m map[int]int) [][2]int {
	var out [][2]int
	for k, v := range m {
		out = append(out, [2]int{k, v})
	}
	sort.Slice(out, func(i, j int) bool { return out[i][0] < out[j][0] })
	return out
}

// collidingRow derives from a row a DIFFERENT row that a non-injective row key could confuse with it.
func collidingRow(r *rng, base []int) []int {
	row := append([]int{}, base...)
	if len(row) == 0 {
		return []int{0}
	}
	switch r.intn(6) {
	case 0, 1:
		// move a digit across a boundary: [1,12] <-> [11,2], [97,97] <-> [9,797]
		for try := 0; try < 8; try++ {
			k := r.intn(len(row))
			if k+1 >= len(row) || row[k] < 0 || row[k+1] < 0 {
				continue
			}
			a, b := fmt.Sprint(row[k]), fmt.Sprint(row[k+1])
			base := 10
			if r.chance(1, 4) {
				a, b, base = fmt.Sprintf("%x", row[k]), fmt.Sprintf("%x", row[k+1]), 16
			}
			var na, nb string
			if len(a) > 1 && r.chance(1, 2) {
				na, nb = a[:len(a)-1], a[len(a)-1:]+b
			} else if len(b) > 1 && b[1] != '0' {
				na, nb = a+b[:1], b[1:]
			} else {
				continue
			}
			if len(nb) > 1 && nb[0] == '0' {
				continue
			}
			x, e1 := strconv.ParseInt(na, base, 64)
			y, e2 := strconv.ParseInt(nb, base, 64)
			if e1 != nil || e2 != nil || x > 2147483647 || y > 2147483647 {
				continue
			}
			row[k], row[k+1] = int(x), int(y)
			return row
		}
		return append(row, 0)
	case 2:
		// permutation (same sum, same xor, same multiset)
		if len(row) > 1 {
			i, j := r.intn(len(row)), r.intn(len(row))
			row[i], row[j] = row[j], row[i]
		}
		return row
	case 3:
		// same sum, different elements
		if len(row) > 1 && row[0] < 2147483647 && row[1] > -2147483648 {
			row[0]++
			row[1]--
		}
		return row
	case 4:
		// sign moved
		k := r.intn(len(row))
		if row[k] != -2147483648 {
			row[k] = -row[k]
		}
		return row
	default:
		// zero padding: [5] vs [5,0] vs [0,5]
		if r.chance(1, 2) {
			return append(row, 0)
		}
		return append([]int{0}, row...)
	}
}
