package main

import (
	"fmt"
	"go/ast"
	"go/parser"
	"go/token"
	"os"
	"path/filepath"
	"regexp"
	"strings"
	"time"
)

func init() { checks["C18"] = checkC18 }

var tableVarRe = regexp.MustCompile(`^(_rules|_termCounts|_actions|_goto|_lexerModes|_lexerMode\d+)$`)

// staticSharedState: every package-level variable of a generated file must be
// one of the tables, initialised by a composite literal, and must never be
// written to or have its address taken.
func staticSharedState(path string) []string {
	fset := token.NewFileSet()
	f, err := parser.ParseFile(fset, path, nil, 0)
	if err != nil {
		return []string{"unparsable: " + err.Error()}
	}
	var problems []string
	globals := map[string]bool{}
	for _, d := range f.Decls {
		gd, ok := d.(*ast.GenDecl)
		if !ok || gd.Tok != token.VAR {
			continue
		}
		for _, sp := range gd.Specs {
			vs := sp.(*ast.ValueSpec)
			for i, n := range vs.Names {
				globals[n.Name] = true
				if !tableVarRe.MatchString(n.Name) {
					problems = append(problems, "package-level variable "+n.Name+" is not one of the tables")
				}
				if i >= len(vs.Values) {
					problems = append(problems, n.Name+" has no initialiser")
				} else if _, ok := vs.Values[i].(*ast.CompositeLit); !ok {
					problems = append(problems, n.Name+" is not initialised by a composite literal")
				}
			}
		}
	}
	base := func(e ast.Expr) string {
		for {
			switch x := e.(type) {
			case *ast.Ident:
				return x.Name
			case *ast.IndexExpr:
				e = x.X
			case *ast.SliceExpr:
				e = x.X
			case *ast.ParenExpr:
				e = x.X
			case *ast.StarExpr:
				e = x.X
			default:
				return ""
			}
		}
	}
	ast.Inspect(f, func(n ast.Node) bool {
		switch x := n.(type) {
		case *ast.AssignStmt:
			if x.Tok == token.DEFINE {
				return true
			}
			for _, l := range x.Lhs {
				if b := base(l); globals[b] {
					problems = append(problems, fmt.Sprintf("%s: assignment to shared table %s", fset.Position(x.Pos()), b))
				}
			}
		case *ast.IncDecStmt:
			if b := base(x.X); globals[b] {
				problems = append(problems, fmt.Sprintf("%s: shared table %s modified", fset.Position(x.Pos()), b))
			}
		case *ast.UnaryExpr:
			if x.Op == token.AND {
				if b := base(x.X); globals[b] {
					problems = append(problems, fmt.Sprintf("%s: address of shared table %s taken", fset.Position(x.Pos()), b))
				}
			}
		}
		return true
	})
	return problems
}

const c18Main = `package main

import (
	"bufio"
	"fmt"
	"os"
	"strings"
	"sync"

%s
)

var handlers = map[string]func(string) string{
%s
}

type job struct{ pkg, line string }

func main() {
	var jobs []job
	in := bufio.NewScanner(os.Stdin)
	in.Buffer(make([]byte, 1<<20), 1<<26)
	for in.Scan() {
		f := strings.SplitN(in.Text(), "\t", 2)
		if len(f) == 2 {
			jobs = append(jobs, job{f[0], f[1]})
		}
	}
	seq := make([]string, len(jobs))
	for i, j := range jobs {
		seq[i] = handlers[j.pkg](j.line)
	}
	const G = 16
	var wg sync.WaitGroup
	var mu sync.Mutex
	mismatches := 0
	first := ""
	for g := 0; g < G; g++ {
		wg.Add(1)
		go func(g int) {
			defer wg.Done()
			for r := 0; r < %d; r++ {
				for k := range jobs {
					i := (k*7 + g*13 + r) %% len(jobs)
					got := handlers[jobs[i].pkg](jobs[i].line)
					if got != seq[i] {
						mu.Lock()
						mismatches++
						if first == "" {
							first = jobs[i].pkg + "\t" + jobs[i].line + "\t" + seq[i] + "\t" + got
						}
						mu.Unlock()
					}
				}
			}
		}(g)
	}
	wg.Wait()
	fmt.Printf("RESULT jobs=%%d mismatches=%%d\n", len(jobs), mismatches)
	if first != "" {
		fmt.Println("FIRST\t" + first)
	}
}
`

func checkC18(c *checkCtx) {
	c.level = "exploration"
	c.cov.Rule = "(a) static obligation on every generated file of this run and on the shipped ones: the only package-level variables are the integer tables, initialised by composite literals, never assigned, modified or address-taken (so all mutable state lives in instances; schedule_independence in Gen/Sched.v then applies); (b) several generated parsers and lexers (with @error recovery, some with _onBounds) are linked into ONE program built with the race detector; 16 goroutines run all requests (token-level parses, text-level lex+parse, pure lexing) of all grammars interleaved, repeatedly, each on its own instance; every result must equal the sequential result and the race detector must stay silent; non-trivial = a request whose parse enters recovery or has >= 5 tokens"
	c.assume = []string{"the Go memory model and scheduler are outside Coq: the theorem (Sched.schedule_independence) covers the logic given that instances share only immutable tables; that premise is the static obligation; data-race freedom is explored with -race"}
	c.coqObligations()
	nG := 6
	reps := 20
	if c.thorough() {
		nG, reps = 16, 200
	}
	ws := newWorkspace("c18")
	defer ws.close()
	for i := 0; len(ws.specs) < nG*5 && i < nG*8; i++ {
		g := genGrammar(c.rng, gramOpts{maxRules: 4, maxTokens: 4, allowError: i%2 == 0})
		ws.add(g.text())
	}
	if err := ws.dumpAll(); err != nil {
		c.addFinding(finding{Signature: "hook-failed", Desc: err.Error(), NoInput: true, Theorem: "loxverif dump", Replay: map[string]any{}})
		return
	}
	var used []*wsSpec
	for _, s := range ws.specs {
		d := s.dump
		if len(used) >= nG || d == nil || !d.OK || d.HasConflicts || !newSampler(d).productive() {
			continue
		}
		s.goText = genUserGo(d, userOpts{bounds: len(used)%2 == 1, pkg: s.name})
		used = append(used, s)
	}
	ws.genAll()
	// static obligation on all generated files (and the shipped ones)
	var genPaths []string
	for _, s := range used {
		if s.loxCode != 0 {
			c.addFinding(finding{Signature: "spec-not-generated", Desc: lastLines(s.loxOut, 3), Replay: map[string]any{"spec": s.loxText}})
			continue
		}
		for _, f := range genFiles {
			genPaths = append(genPaths, filepath.Join(s.dir, f))
		}
	}
	for _, d := range shippedDirs {
		for _, f := range genFiles {
			genPaths = append(genPaths, filepath.Join(repoDir, d, f))
		}
	}
	for _, p := range genPaths {
		c.cov.Evaluations++
		for _, prob := range staticSharedState(p) {
			c.addFinding(finding{Signature: "generated-code-has-shared-mutable-state",
				Desc:    strings.TrimPrefix(p, ws.dir+"/") + ": " + prob,
				Theorem: "premise of Sched.schedule_independence (instances share only immutable tables)", NoInput: true,
				Replay: map[string]any{"file": p, "problem": prob, "spec": readFile(filepath.Join(filepath.Dir(p), "spec.lox"))}})
		}
	}
	// the concurrent program
	var imports, handlers []string
	var lines []string
	for _, s := range used {
		if s.loxCode != 0 {
			continue
		}
		imports = append(imports, fmt.Sprintf("\t%s \"ws/%s\"", s.name, s.name))
		handlers = append(handlers, fmt.Sprintf("\t%q: %s.Handle,", s.name, s.name))
		sm := newSampler(s.dump)
		nterm := len(s.dump.Terminals)
		for k := 0; k < 12; k++ {
			w := sm.sentence(c.rng, 2+c.rng.intn(4))
			if k%2 == 1 && nterm > 2 {
				w = mutateTokens(c.rng, w, nterm)
			}
			var sb strings.Builder
			sb.WriteString("P")
			for _, t := range w {
				fmt.Fprintf(&sb, " %d", t)
			}
			lines = append(lines, s.name+"\t"+sb.String())
			c.note(s.name+sb.String(), len(w) >= 3)
			// the same as text through the generated lexer: token i>=2 of genGrammar is literal 'a'+i-2
			var txt []byte
			for _, t := range w {
				if t >= 2 {
					txt = append(txt, byte('a'+t-2), ' ')
				} else {
					txt = append(txt, '#', ' ')
				}
			}
			lines = append(lines, s.name+"\t"+fmt.Sprintf("X %x", txt))
			lines = append(lines, s.name+"\t"+fmt.Sprintf("L %x", txt))
		}
	}
	os.MkdirAll(filepath.Join(ws.dir, "cmain"), 0o755)
	os.WriteFile(filepath.Join(ws.dir, "cmain", "main.go"),
		[]byte(fmt.Sprintf(c18Main, strings.Join(imports, "\n"), strings.Join(handlers, "\n"), reps)), 0o644)
	env := append(goEnv(), "CGO_ENABLED=1")
	_ = env
	r := run(ws.dir, 20*time.Minute, nil, "env", "CGO_ENABLED=1", "go", "build", "-race", "-o", filepath.Join(ws.dir, "bin", "cmain"), "./cmain")
	if r.Code != 0 {
		c.addFinding(finding{Signature: "concurrent-program-does-not-build", Desc: lastLines(string(r.Err), 6), Replay: map[string]any{"errors": string(r.Err)}})
		return
	}
	rr := run(ws.dir, 20*time.Minute, []byte(strings.Join(lines, "\n")+"\n"), filepath.Join(ws.dir, "bin", "cmain"))
	out := string(rr.Out)
	c.sample(map[string]any{"packages": len(imports), "requests": len(lines), "goroutines": 16, "repetitions": reps, "result": strings.TrimSpace(out)})
	if strings.Contains(string(rr.Err), "DATA RACE") {
		c.addFinding(finding{Signature: "data-race", Desc: "the race detector reports a data race between concurrently running generated parsers/lexers: " + lastLines(string(rr.Err), 12),
			Replay: map[string]any{"race_report": string(rr.Err)}})
	}
	if !strings.Contains(out, "mismatches=0") {
		c.addFinding(finding{Signature: "concurrent-result-differs", Desc: "a concurrent run gave a result different from the sequential one: " + lastLines(out, 3),
			Replay: map[string]any{"output": out}})
	}
	c.cov.Programs = len(imports)
	c.cov.Extra = mergeExtra(c.cov.Extra, map[string]any{"files_checked_statically": len(genPaths), "requests": len(lines)})
}
