package main

import (
	"encoding/json"
	"fmt"
	"os"
	"path/filepath"
	"strings"
	"time"
)

// finding is one way in which the property was seen (or can no longer be
// shown) to fail.
type finding struct {
	Signature string `json:"signature"` // stable identification of what fails
	Desc      string `json:"description"`
	Replay    any    `json:"replay"`
	NoInput   bool   `json:"no_failing_input_found"`
	Theorem   string `json:"theorem_or_correspondence,omitempty"`
}

type knownEntry struct {
	Property    string `json:"property"`
	Kind        string `json:"kind"` // known | fixed
	Signature   string `json:"signature"`
	Description string `json:"description"`
	Commit      string `json:"commit,omitempty"`
}

type coverage struct {
	Evaluations        int            `json:"evaluations"`
	DistinctNontrivial int            `json:"distinct_nontrivial"`
	Rule               string         `json:"rule"`
	Samples            []any          `json:"samples"`
	Obligations        int            `json:"obligations"`
	Discharged         int            `json:"discharged"`
	CheckerCmd         string         `json:"checker_cmd"`
	TrustedBase        []string       `json:"trusted_base"`
	Programs           int            `json:"programs"`
	Disagreements      int            `json:"disagreements_checked"`
	Explanation        string         `json:"explanation"`
	Exhaustive         bool           `json:"exhaustive"`
	Extra              map[string]any `json:"extra,omitempty"`
}

type evidence struct {
	PropertyID  string   `json:"property_id"`
	Tier        string   `json:"tier"`
	Seed        int64    `json:"seed"`
	Level       string   `json:"level"`
	Coverage    coverage `json:"coverage"`
	Assumptions []string `json:"assumptions"`
	WallS       float64  `json:"wall_s"`
	Violations  int      `json:"violations"`
}

// checkCtx carries what a property check accumulates.
type checkCtx struct {
	id         string
	tier       string
	seed       int64
	rng        *rng
	start      time.Time
	findings   []finding
	cov        coverage
	level      string
	assume     []string
	distinct   map[string]bool
	replaySig  string // --replay: look only for this finding, write no evidence
	replayPath string
}

func (c *checkCtx) thorough() bool { return c.tier == "thorough" }

func (c *checkCtx) addFinding(f finding) { c.findings = append(c.findings, f) }

// note counts one evaluated case; key identifies it for distinctness,
// nontrivial says whether it counts as non-trivial by the check's rule.
func (c *checkCtx) note(key string, nontrivial bool) {
	c.cov.Evaluations++
	if nontrivial && !c.distinct[key] {
		c.distinct[key] = true
		c.cov.DistinctNontrivial++
	}
}

func (c *checkCtx) sample(v any) {
	if len(c.cov.Samples) < 6 {
		c.cov.Samples = append(c.cov.Samples, v)
	}
}

func loadKnown() []knownEntry {
	data, err := os.ReadFile(filepath.Join(verifDir, "KNOWN_FINDINGS.json"))
	if err != nil {
		return nil
	}
	var ks []knownEntry
	if err := json.Unmarshal(data, &ks); err != nil {
		fmt.Fprintln(os.Stderr, "KNOWN_FINDINGS.json unreadable:", err)
		return nil
	}
	return ks
}

// finish prints the verdict lines, writes replays and evidence, and returns
// the process exit code.
func (c *checkCtx) finish() int {
	if c.replaySig != "" {
		for _, f := range c.findings {
			if f.Signature == c.replaySig {
				fmt.Printf("VIOLATION property=%s replay=%s\n", c.id, c.replayPath)
				fmt.Fprintf(os.Stderr, "  %s: %s\n", f.Signature, f.Desc)
				return 1
			}
		}
		fmt.Printf("OK property=%s replay: the recorded finding %q does not occur on the current tree (seed %d, tier %s)\n", c.id, c.replaySig, c.seed, c.tier)
		return 0
	}
	known := loadKnown()
	violations := 0
	seen := map[string]bool{}
	os.MkdirAll(filepath.Join(outDir(), "replays"), 0o755)
	for _, f := range c.findings {
		if seen[f.Signature] {
			continue
		}
		seen[f.Signature] = true
		isKnown := false
		for _, k := range known {
			if k.Property == c.id && k.Kind == "known" && k.Signature == f.Signature {
				isKnown = true
				fmt.Printf("KNOWN-FINDING: property=%s %s\n", c.id, k.Description)
			}
		}
		if isKnown {
			continue
		}
		violations++
		path := filepath.Join(outDir(), "replays", fmt.Sprintf("%s-%s.json", c.id, hashOf(f.Signature)))
		data, _ := json.MarshalIndent(map[string]any{
			"property": c.id, "signature": f.Signature, "description": f.Desc,
			"replay": f.Replay, "no_failing_input_found": f.NoInput,
			"theorem_or_correspondence": f.Theorem, "seed": c.seed, "tier": c.tier,
		}, "", " ")
		os.WriteFile(path, data, 0o644)
		line := fmt.Sprintf("VIOLATION property=%s replay=%s", c.id, path)
		if f.NoInput {
			line += " no-failing-input-found"
		}
		fmt.Println(line)
		fmt.Fprintf(os.Stderr, "  %s: %s\n", f.Signature, f.Desc)
	}
	if len(c.cov.Samples) == 0 {
		c.cov.Samples = []any{"(no cases)"}
	}
	if c.cov.TrustedBase == nil {
		c.cov.TrustedBase = []string{}
	}
	c.cov.Disagreements = len(c.findings)
	ev := evidence{
		PropertyID: c.id, Tier: c.tier, Seed: c.seed, Level: c.level, Coverage: c.cov,
		Assumptions: c.assume, WallS: time.Since(c.start).Seconds(), Violations: violations,
	}
	os.MkdirAll(filepath.Join(outDir(), "evidence"), 0o755)
	data, _ := json.MarshalIndent(ev, "", " ")
	os.WriteFile(filepath.Join(outDir(), "evidence", c.id+".json"), data, 0o644)
	if violations > 0 {
		return 1
	}
	fmt.Printf("OK property=%s tier=%s evaluations=%d distinct=%d obligations=%d/%d wall=%.1fs\n",
		c.id, c.tier, c.cov.Evaluations, c.cov.DistinctNontrivial, c.cov.Discharged, c.cov.Obligations,
		time.Since(c.start).Seconds())
	return 0
}

// coqObligations recompiles Properties/<id>.v (its dependencies are kept up
// to date by `make`) and reads the theorem names and their axioms off the
// output of Print Assumptions.
func (c *checkCtx) coqObligations() {
	coqDir := filepath.Join(verifDir, "coq")
	file := filepath.Join("theories", "Properties", c.id+".v")
	// build exactly what this property's theorems depend on (full .vo build of that cone)
	target := filepath.Join("theories", "Properties", c.id+".vo")
	if _, err := os.Stat(filepath.Join(coqDir, file)); err != nil {
		target = "all"
	}
	mk := run(coqDir, 60*time.Minute, nil, "make", "-j16", target)
	src, err := os.ReadFile(filepath.Join(coqDir, file))
	if err != nil {
		c.cov.CheckerCmd = "make -C /verif/coq (no Properties file for " + c.id + ")"
		return
	}
	names := []string{}
	for _, line := range strings.Split(string(src), "\n") {
		line = strings.TrimSpace(line)
		if strings.HasPrefix(line, "Theorem ") {
			n := strings.Fields(line)[1]
			n = strings.TrimRight(n, ":")
			names = append(names, n)
		}
	}
	c.cov.Obligations = len(names)
	c.cov.CheckerCmd = "make -C /verif/coq -j16 " + target + " && coqc -Q theories Lox " + file
	if mk.Code != 0 {
		c.addFinding(finding{
			Signature: "coq-build-failed",
			Desc:      "the Coq development no longer builds: " + lastLines(string(mk.Out)+string(mk.Err), 12),
			NoInput:   true, Theorem: "make -C /verif/coq",
			Replay: map[string]any{"cmd": "make -C /verif/coq -j16"},
		})
		return
	}
	r := run(coqDir, 20*time.Minute, nil, "coqc", "-Q", "theories", "Lox", file)
	if r.Code != 0 {
		c.addFinding(finding{
			Signature: "coq-properties-failed",
			Desc:      "Properties/" + c.id + ".v does not check: " + lastLines(string(r.Out)+string(r.Err), 12),
			NoInput:   true, Theorem: file,
			Replay: map[string]any{"cmd": c.cov.CheckerCmd},
		})
		return
	}
	out := string(r.Out)
	closed := strings.Count(out, "Closed under the global context")
	axioms := []string{}
	if idx := strings.Index(out, "Axioms:"); idx >= 0 {
		axioms = append(axioms, strings.TrimSpace(out[idx:]))
	}
	c.cov.Discharged = len(names)
	c.cov.TrustedBase = append(c.cov.TrustedBase,
		"Coq 8.16.1 kernel (coqc, vm_compute; no native_compute)",
		fmt.Sprintf("Print Assumptions: %d of %d theorems closed under the global context", closed, len(names)))
	if len(axioms) > 0 {
		c.cov.TrustedBase = append(c.cov.TrustedBase, axioms...)
	}
	if c.cov.Extra == nil {
		c.cov.Extra = map[string]any{}
	}
	c.cov.Extra["theorems"] = names
	if c.thorough() {
		// the independent checker re-checks this property's file and everything it depends on, and lists the axioms
		ck := run(coqDir, 60*time.Minute, nil, "coqchk", "-silent", "-o", "-Q", "theories", "Lox", "Lox.Properties."+c.id)
		ckOut := string(ck.Out) + string(ck.Err)
		ok := ck.Code == 0 && strings.Contains(ckOut, "Axioms: <none>") &&
			strings.Contains(ckOut, "type-in-type: <none>") && strings.Contains(ckOut, "unsafe (co)fixpoints: <none>") &&
			strings.Contains(ckOut, "positivity is assumed: <none>")
		c.cov.Extra["coqchk"] = lastLines(ckOut, 12)
		if ok {
			c.cov.TrustedBase = append(c.cov.TrustedBase, "coqchk -o on Lox.Properties."+c.id+" and its dependencies: Axioms <none>, no type-in-type, no unsafe fixpoints, no assumed positivity")
		} else {
			c.addFinding(finding{Signature: "coqchk-failed",
				Desc:    "coqchk does not accept Properties/" + c.id + " and its dependencies without axioms: " + lastLines(ckOut, 12),
				NoInput: true, Theorem: "coqchk -o Lox.Properties." + c.id, Replay: map[string]any{"cmd": "coqchk -silent -o -Q theories Lox Lox.Properties." + c.id}})
		}
	}
}

func lastLines(s string, n int) string {
	ls := strings.Split(strings.TrimSpace(s), "\n")
	if len(ls) > n {
		ls = ls[len(ls)-n:]
	}
	return strings.Join(ls, " | ")
}

// outDir: evidence and replays go to /verif itself for the tree under test, and to a scratch directory when the
// checks are tried on a worktree carrying a seeded change (VERIF_REPO), so that committed evidence only ever
// comes from /repo.
func outDir() string {
	if repoDir == "/repo" {
		return verifDir
	}
	return filepath.Join(binDir, "out")
}
