package main

import (
	"fmt"
	"os"
	"path/filepath"
	"regexp"
	"strconv"
	"strings"
)

// parseGoArrays reads `var name = []T{ ... }` integer arrays out of generated Go source.
var arrayRe = regexp.MustCompile(`(?s)var\s+(\w+)\s*=\s*\[\](?:int32|uint32)\s*\{(.*?)\}`)

func parseGoArrays(src string) map[string][]int {
	out := map[string][]int{}
	for _, m := range arrayRe.FindAllStringSubmatch(src, -1) {
		var xs []int
		for _, f := range strings.FieldsFunc(m[2], func(r rune) bool { return r == ',' || r == ' ' || r == '\n' || r == '\t' }) {
			v, err := strconv.Atoi(f)
			if err == nil {
				xs = append(xs, v)
			}
		}
		out[m[1]] = xs
	}
	return out
}

type parserTables struct {
	actions, gotos, rules, termCounts []int
}

func readParserTables(dir string) (*parserTables, error) {
	src, err := os.ReadFile(filepath.Join(dir, "parser.gen.go"))
	if err != nil {
		return nil, err
	}
	a := parseGoArrays(string(src))
	for _, n := range []string{"_actions", "_goto", "_rules", "_termCounts"} {
		if _, ok := a[n]; !ok {
			return nil, fmt.Errorf("array %s not found in parser.gen.go", n)
		}
	}
	return &parserTables{a["_actions"], a["_goto"], a["_rules"], a["_termCounts"]}, nil
}

func readLexerModes(dir string) ([][]int, error) {
	src, err := os.ReadFile(filepath.Join(dir, "lexer.gen.go"))
	if err != nil {
		return nil, err
	}
	a := parseGoArrays(string(src))
	var modes [][]int
	for i := 0; ; i++ {
		m, ok := a[fmt.Sprintf("_lexerMode%d", i)]
		if !ok {
			break
		}
		modes = append(modes, m)
	}
	if len(modes) == 0 {
		return nil, fmt.Errorf("no _lexerModeN array in lexer.gen.go")
	}
	return modes, nil
}

var kindCode = map[string]int{"not_generated": 0, "sprime": 1, "one_or_more": 2, "one_or_more_f": 3,
	"list": 4, "zero_or_one": 5, "zero_or_more": 6, "zero_or_more_f": 6}

// model requests that load one specification's parser into the model process
func loadParserReqs(id int, d *jDump, t *parserTables) []*req {
	q := newReq("tables").i(id).ints(t.actions).ints(t.gotos).ints(t.rules).ints(t.termCounts)
	q.i(len(d.Prods))
	for _, p := range d.Prods {
		q.i(kindCode[d.Rules[p.Rule].Kind])
	}
	q.ints(prodClasses(d))
	g := newReq("grammar").i(id).i(len(d.Prods))
	for _, p := range d.Prods {
		g.i(p.Rule).i(len(p.Terms))
		for _, t := range p.Terms {
			g.b(t.T).i(t.I)
		}
	}
	// certificate: item sets from the dump; nullable / first by fixed point
	nullable := make([]bool, len(d.Rules))
	first := make([]map[int]bool, len(d.Rules))
	for i := range first {
		first[i] = map[int]bool{}
	}
	for changed := true; changed; {
		changed = false
		for _, p := range d.Prods {
			allNull := true
			for _, t := range p.Terms {
				if t.T {
					if !first[p.Rule][t.I] {
						first[p.Rule][t.I] = true
						changed = true
					}
					allNull = false
					break
				}
				for x := range first[t.I] {
					if !first[p.Rule][x] {
						first[p.Rule][x] = true
						changed = true
					}
				}
				if !nullable[t.I] {
					allNull = false
					break
				}
			}
			if allNull && !nullable[p.Rule] {
				nullable[p.Rule] = true
				changed = true
			}
		}
	}
	c := newReq("cert").i(id).i(len(d.States))
	for _, s := range d.States {
		c.i(len(s.Items))
		for _, it := range s.Items {
			c.i(it[0]).i(it[1]).i(it[2])
		}
	}
	c.i(len(nullable))
	for _, b := range nullable {
		c.b(b)
	}
	c.i(len(first))
	for _, f := range first {
		var xs []int
		for x := 0; x < len(d.Terminals); x++ {
			if f[x] {
				xs = append(xs, x)
			}
		}
		c.ints(xs)
	}
	return []*req{q, g, c}
}

func parseReq(id int, bounds, rec bool, fuel int, w []int) *req {
	return newReq("parse").i(id).b(bounds).b(rec).i(fuel).ints(w)
}
