package main

import (
	"bytes"
	"fmt"
	"os"
	"path/filepath"
	"sort"
	"strings"
	"sync"
	"time"
)

// A workspace is a scratch Go module holding one package per generated
// specification: spec.lox + user code, then lox's *.gen.go, compiled in one go.
type workspace struct {
	dir   string
	specs []*wsSpec
}

type wsSpec struct {
	name     string
	dir      string
	loxText  string
	goText   string
	dump     *jDump
	loxCode  int    // exit status of lox (0 = generated)
	loxOut   string // its diagnostics
	loxHung  bool
	built    bool
	buildErr string
	bin      string
	tag      any               // whatever the generator wants to remember
	files    map[string]string // all .lox files of the spec (name -> text)
}

func newWorkspace(tag string) *workspace {
	w := &workspace{dir: scratchDir(tag)}
	os.WriteFile(filepath.Join(w.dir, "go.mod"), []byte(
		"module ws\n\ngo 1.23.0\n\nrequire github.com/dcaiafa/loxlex v0.5.0\n"), 0o644)
	sum, _ := os.ReadFile(filepath.Join(repoDir, "go.sum"))
	os.WriteFile(filepath.Join(w.dir, "go.sum"), sum, 0o644)
	os.MkdirAll(filepath.Join(w.dir, "bin"), 0o755)
	return w
}

func (w *workspace) close() { os.RemoveAll(w.dir) }

func (w *workspace) add(loxText string) *wsSpec {
	s := &wsSpec{name: fmt.Sprintf("s%03d", len(w.specs)), loxText: loxText}
	s.dir = filepath.Join(w.dir, s.name)
	os.MkdirAll(s.dir, 0o755)
	os.WriteFile(filepath.Join(s.dir, "spec.lox"), []byte(loxText), 0o644)
	w.specs = append(w.specs, s)
	return s
}

// dumpAll asks the hook for the analysis of every spec (grammar numbering,
// automaton, lexer automata).
// addFiles adds a specification made of several .lox files.
func (w *workspace) addFiles(files map[string]string) *wsSpec {
	s := &wsSpec{name: fmt.Sprintf("s%03d", len(w.specs)), files: files}
	s.dir = filepath.Join(w.dir, s.name)
	os.MkdirAll(s.dir, 0o755)
	var names []string
	for n := range files {
		names = append(names, n)
	}
	sort.Strings(names)
	for _, n := range names {
		os.WriteFile(filepath.Join(s.dir, n), []byte(files[n]), 0o644)
		s.loxText += "// file " + n + "\n" + files[n]
	}
	w.specs = append(w.specs, s)
	return s
}

func (w *workspace) dumpAll() error {
	var dirs []string
	for _, s := range w.specs {
		dirs = append(dirs, s.dir)
	}
	const chunk = 40
	for i := 0; i < len(dirs); i += chunk {
		j := i + chunk
		if j > len(dirs) {
			j = len(dirs)
		}
		ds, err := dumpDirs(dirs[i:j])
		if err != nil {
			return err
		}
		for k, d := range ds {
			w.specs[i+k].dump = d
		}
	}
	return nil
}

func parallel(n int, f func(i int)) {
	var wg sync.WaitGroup
	sem := make(chan struct{}, 16)
	for i := 0; i < n; i++ {
		wg.Add(1)
		sem <- struct{}{}
		go func(i int) {
			defer wg.Done()
			defer func() { <-sem }()
			f(i)
		}(i)
	}
	wg.Wait()
}

// genAll runs the real lox binary on every spec that has user code.
func (w *workspace) genAll() {
	parallel(len(w.specs), func(i int) {
		s := w.specs[i]
		if s.goText == "" {
			return
		}
		os.WriteFile(filepath.Join(s.dir, "parser.go"), []byte(s.goText), 0o644)
		r := run(w.dir, 120*time.Second, nil, loxBin, s.dir)
		s.loxCode = r.Code
		s.loxHung = r.TimedOut
		s.loxOut = string(r.Out) + string(r.Err)
	})
	// a run that hit the time limit while 16 of them (and whatever else the machine is doing) competed for the
	// CPU is repeated alone with a generous limit before it counts as a failure of lox
	for _, s := range w.specs {
		if s.goText == "" || !s.loxHung {
			continue
		}
		r := run(w.dir, 15*time.Minute, nil, loxBin, s.dir)
		s.loxCode = r.Code
		s.loxHung = r.TimedOut
		s.loxOut = string(r.Out) + string(r.Err)
		if r.TimedOut {
			s.loxOut += "\n(lox did not exit within 15 minutes)"
		}
	}
}

// buildAll compiles every generated package into bin/<name>.
func (w *workspace) buildAll() {
	var pkgs []string
	for _, s := range w.specs {
		if s.goText != "" && s.loxCode == 0 {
			pkgs = append(pkgs, "./"+s.name)
		}
	}
	if len(pkgs) == 0 {
		return
	}
	args := append([]string{"build", "-o", filepath.Join(w.dir, "bin") + "/"}, pkgs...)
	r := run(w.dir, 20*time.Minute, nil, "go", args...)
	errText := string(r.Err) + string(r.Out)
	for _, s := range w.specs {
		if s.goText == "" || s.loxCode != 0 {
			continue
		}
		s.bin = filepath.Join(w.dir, "bin", s.name)
		if _, err := os.Stat(s.bin); err == nil {
			s.built = true
			continue
		}
		// isolate this package's errors
		var lines []string
		for _, l := range strings.Split(errText, "\n") {
			if strings.Contains(l, s.name+"/") || strings.Contains(l, s.name+string(filepath.Separator)) {
				lines = append(lines, l)
			}
		}
		s.buildErr = strings.Join(lines, "\n")
		if r.Code != 0 && s.buildErr == "" {
			// a failure elsewhere stops go build from writing any binary: build alone
			r1 := run(w.dir, 10*time.Minute, nil, "go", "build", "-o", s.bin, "./"+s.name)
			if r1.Code == 0 {
				s.built = true
			} else {
				s.buildErr = string(r1.Err)
			}
		}
	}
}

// runInputs feeds one request per line to the spec's driver binary and
// returns one answer per request.  A hang or crash of the process is reported
// in the answer of the request that caused it, and the rest is retried.
func (s *wsSpec) runInputs(reqs []string) []string {
	out := make([]string, 0, len(reqs))
	for len(out) < len(reqs) {
		rest := reqs[len(out):]
		r := run(filepath.Dir(s.bin), 5*time.Minute, []byte(strings.Join(rest, "\n")+"\n"), s.bin)
		lines := []string{}
		if t := strings.TrimRight(string(r.Out), "\n"); t != "" {
			lines = strings.Split(t, "\n")
		}
		if len(lines) > len(rest) {
			lines = lines[:len(rest)]
		}
		out = append(out, lines...)
		if len(lines) < len(rest) && !(len(lines) > 0 && lines[len(lines)-1] == "HANG") {
			// the driver died on request len(out)
			msg := "DIED\t" + lastLines(string(r.Err), 3)
			if r.TimedOut {
				msg = "HANG\tprocess timeout"
			}
			out = append(out, msg)
		}
	}
	return out
}

func indent(s string) string {
	var b bytes.Buffer
	for _, l := range strings.Split(s, "\n") {
		b.WriteString("    " + l + "\n")
	}
	return b.String()
}
