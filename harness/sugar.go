package main

import "fmt"

// Correspondence of the Normalize pass (cardinality sugar, @list) with its Gallina mirror
// Gen/NormalizeModel.normalize: the production list and the helper rules of lox's dump must be exactly what the
// model computes from the harness's own AST of the grammar.

func encSTerm(q *req, g *gSpec, t gTerm, ti, ri map[string]int) bool {
	base := func(t gTerm) bool {
		switch t.kind {
		case 0:
			i, ok := ti[t.name]
			q.i(0).i(i)
			return ok
		case 1:
			i, ok := ri[t.name]
			q.i(1).i(i)
			return ok
		case 2:
			q.i(2)
			return true
		}
		return false
	}
	if t.kind == 3 {
		if t.card != "" && t.card != "?" {
			return false
		}
		q.i(4)
		if t.elem.card != "" || t.sep.card != "" || t.elem.kind == 3 || t.sep.kind == 3 {
			return false
		}
		if !base(*t.elem) || !base(*t.sep) {
			return false
		}
		q.b(t.card == "?")
		return true
	}
	switch t.card {
	case "":
		return base(t)
	case "?":
		q.i(3).i(0)
	case "*":
		q.i(3).i(1)
	case "*!":
		q.i(3).i(2)
	case "+":
		q.i(3).i(3)
	default:
		return false
	}
	return base(t)
}

func sugarReq(g *gSpec, d *jDump) (*req, bool) {
	ti := map[string]int{}
	for _, t := range d.Terminals {
		ti[t.Name] = t.Index
	}
	ri := map[string]int{}
	for _, r := range d.Rules {
		ri[r.Name] = r.Index
	}
	// user rule k must be rule k+1
	for k, r := range g.rules {
		if ri[r.name] != k+1 {
			return nil, false
		}
	}
	q := newReq("sugar").i(ri[g.rules[0].name]).i(len(g.rules))
	ok := true
	for _, r := range g.rules {
		q.i(len(r.prods))
		for _, p := range r.prods {
			q.i(len(p.terms))
			for _, t := range p.terms {
				ok = encSTerm(q, g, t, ti, ri) && ok
			}
		}
	}
	return q, ok
}

func checkSugarModel(c *checkCtx, specs []*wsSpec) {
	var reqs []*req
	var who []*wsSpec
	for _, s := range specs {
		g, ok := s.tag.(*gSpec)
		if !ok || s.dump == nil || !s.dump.OK {
			continue
		}
		q, ok := sugarReq(g, s.dump)
		if !ok {
			continue
		}
		reqs = append(reqs, q)
		who = append(who, s)
	}
	if len(reqs) == 0 {
		return
	}
	ans, err := callModel(reqs)
	if err != nil {
		c.addFinding(finding{Signature: "model-failed", Desc: err.Error(), NoInput: true, Theorem: "loxmodel sugar", Replay: map[string]any{}})
		return
	}
	kcode := map[string]int{"not_generated": 0, "sprime": 1, "zero_or_more": 2, "zero_or_more_f": 3, "one_or_more": 4, "one_or_more_f": 5, "zero_or_one": 6, "list": 7}
	bad := 0
	helpers := 0
	for i, s := range who {
		a := ans[i]
		d := s.dump
		if a.toks[0] == "exn" {
			c.addFinding(finding{Signature: "model-failed", Desc: a.raw(), NoInput: true, Theorem: "loxmodel sugar", Replay: map[string]any{"spec": s.loxText}})
			continue
		}
		wf := a.int() == 1
		var diff string
		if !wf {
			diff = "the model's well-formedness test (wf_sgrammarb, hypothesis of normalize_sound/complete) rejects a grammar lox accepts"
		}
		np := a.int()
		if np != len(d.Prods) && diff == "" {
			diff = fmt.Sprintf("lox has %d productions, the model %d", len(d.Prods), np)
		}
		for p := 0; p < np; p++ {
			n := a.int()
			lhs := a.int()
			var syms []int
			for k := 1; k < n; k++ {
				syms = append(syms, a.int())
			}
			if diff != "" || p >= len(d.Prods) {
				continue
			}
			dp := d.Prods[p]
			same := dp.Rule == lhs && len(dp.Terms) == len(syms)
			for k := 0; same && k < len(syms); k++ {
				e := 2*dp.Terms[k].I + 1
				if dp.Terms[k].T {
					e = 2 * dp.Terms[k].I
				}
				same = e == syms[k]
			}
			if !same {
				diff = fmt.Sprintf("production %d: lox has rule %d -> %v, the model rule %d -> %v (terminal t as 2t, rule n as 2n+1)", p, dp.Rule, dp.Terms, lhs, syms)
			}
		}
		nh := a.int()
		seenH := map[int]bool{}
		for k := 0; k < nh; k++ {
			h, kind := a.int(), a.int()
			seenH[h] = true
			helpers++
			if diff == "" && (h >= len(d.Rules) || kcode[d.Rules[h].Kind] != kind) {
				diff = fmt.Sprintf("helper rule %d: the model says kind %d, lox reports %v", h, kind, func() any {
					if h < len(d.Rules) {
						return d.Rules[h].Kind
					}
					return "no such rule"
				}())
			}
		}
		if diff == "" {
			for _, r := range d.Rules {
				if r.Kind != "not_generated" && r.Kind != "sprime" && !seenH[r.Index] {
					diff = fmt.Sprintf("lox has a generated rule %d (%s, %s) the model does not create", r.Index, r.Name, r.Kind)
				}
			}
		}
		if diff != "" && bad < 3 {
			bad++
			c.addFinding(finding{Signature: "normalize-model-mismatch", Desc: "the Normalize pass and its mirror Gen/NormalizeModel.normalize disagree: " + diff,
				Theorem: "correspondence ast Normalize pass vs Gen/NormalizeModel.normalize", Replay: map[string]any{"spec": s.loxText}})
		}
	}
	c.cov.Extra = mergeExtra(c.cov.Extra, map[string]any{"grammars_compared_with_normalize_model": len(who), "helper_rules_compared": helpers})
}
