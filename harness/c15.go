package main

import (
	"fmt"
	"os"
	"path/filepath"
	"sort"
	"strings"
	"unicode/utf8"
)

func init() { checks["C15"] = checkC15 }

type rng2 = [2]int

type rangeReq struct {
	Op string   `json:"op"`
	A  [][2]int `json:"a"`
	B  [][2]int `json:"b"`
}
type rangeResp struct {
	Out   [][2]int `json:"out"`
	Calls [][]int  `json:"calls"`
	Panic string   `json:"panic"`
}

const maxRune = 0x10FFFF

var boundaryPoints = []int{0, 1, 9, 10, 0x20, 0x2D, 0x5C, 0x7F, 0x80, 0x7FF, 0x800, 0xD7FF, 0xE000, 0xFFFD, 0xFFFF, 0x10000, 0x10FFFE, 0x10FFFF}

func genPoint(r *rng, small bool) int {
	if small {
		return r.intn(9)
	}
	switch r.intn(4) {
	case 0:
		return pick(r, boundaryPoints)
	case 1:
		p := pick(r, boundaryPoints) + r.intn(5) - 2
		if p < 0 {
			p = 0
		}
		if p > maxRune {
			p = maxRune
		}
		return p
	case 2:
		return 0x40 + r.intn(0x40)
	default:
		return r.intn(maxRune + 1)
	}
}

func genRange(r *rng, small bool) [2]int {
	a, b := genPoint(r, small), genPoint(r, small)
	if a > b {
		a, b = b, a
	}
	if r.chance(1, 4) {
		b = a
	}
	return [2]int{a, b}
}

func genRanges(r *rng, small bool, maxLen int) [][2]int {
	n := r.intn(maxLen + 1)
	out := make([][2]int, n)
	for i := range out {
		out[i] = genRange(r, small)
	}
	return out
}

func flat(rs [][2]int) []int {
	out := make([]int, 0, 2*len(rs))
	for _, x := range rs {
		out = append(out, x[0], x[1])
	}
	return out
}

func rangesReq(cmd string, lists ...[][2]int) *req {
	q := newReq(cmd)
	for _, l := range lists {
		q.i(len(l))
		for _, x := range l {
			q.i(x[0]).i(x[1])
		}
	}
	return q
}

func inRanges(c int, rs [][2]int) bool {
	for _, x := range rs {
		if x[0] <= c && c <= x[1] {
			return true
		}
	}
	return false
}

// interesting points for a semantic comparison: every end point and its neighbours
func probePoints(lists ...[][2]int) []int {
	set := map[int]bool{0: true, maxRune: true}
	for _, l := range lists {
		for _, x := range l {
			for _, p := range []int{x[0] - 1, x[0], x[0] + 1, x[1] - 1, x[1], x[1] + 1} {
				if p >= 0 && p <= maxRune {
					set[p] = true
				}
			}
		}
	}
	out := make([]int, 0, len(set))
	for p := range set {
		out = append(out, p)
	}
	sort.Ints(out)
	return out
}

func eqInts(a, b []int) bool {
	if len(a) != len(b) {
		return false
	}
	for i := range a {
		if a[i] != b[i] {
			return false
		}
	}
	return true
}

func copyRanges(a [][2]int) [][2]int { return append([][2]int(nil), a...) }

// ---- class expressions as text ----

type classExpr struct {
	neg   bool
	items [][2]int
	sub   *classExpr
}

func (e *classExpr) encode(q *req) {
	if e.sub != nil {
		q.i(1)
		(&classExpr{neg: e.neg, items: e.items}).encode(q)
		e.sub.encode(q)
		return
	}
	q.i(0).b(e.neg).i(len(e.items))
	for _, x := range e.items {
		q.i(x[0]).i(x[1])
	}
}

func (e *classExpr) sem(c int) bool {
	in := inRanges(c, e.items)
	if e.neg {
		in = !in
	}
	if e.sub != nil {
		return in && !e.sub.sem(c)
	}
	return in
}

func isSurrogate(c int) bool { return c >= 0xD800 && c <= 0xDFFF }

// classChar prints one code point the way a class accepts it.
func classChar(r *rng, c int) string {
	switch c {
	case '\n':
		return `\n`
	case '-':
		// an escaped dash is a CLASS_CHAR in every spelling, never the range operator
		if r.chance(1, 2) {
			return `\-`
		}
	case '\\':
		return `\\`
	case ']':
		return `\u005d`
	case '\r':
		if r.chance(1, 2) {
			return `\r`
		}
	case '\t':
		if r.chance(1, 2) {
			return `\t`
		}
	}
	raw := c >= 0x20 && c != 0x7F && c != '-' && utf8.ValidRune(rune(c)) && c != 0xFFFD
	switch k := r.intn(4); {
	case k == 0 && raw:
		return string(rune(c))
	case k == 1 && c < 0x80:
		return fmt.Sprintf(`\x%02x`, c)
	case k <= 2 && c <= 0xFFFF:
		if r.chance(1, 2) {
			return fmt.Sprintf(`\u%04X`, c)
		}
		return fmt.Sprintf(`\u%04x`, c)
	default:
		return fmt.Sprintf(`\U%08x`, c)
	}
}

func (e *classExpr) text(r *rng) string {
	var sb strings.Builder
	if e.neg {
		sb.WriteString("~")
	}
	sb.WriteString("[")
	for _, x := range e.items {
		if x[0] == x[1] && r.chance(3, 4) {
			sb.WriteString(classChar(r, x[0]))
		} else {
			sb.WriteString(classChar(r, x[0]) + "-" + classChar(r, x[1]))
		}
	}
	sb.WriteString("]")
	if e.sub != nil {
		sb.WriteString(" - " + e.sub.text(r))
	}
	return sb.String()
}

func genClassPoint(r *rng) int {
	for {
		p := genPoint(r, false)
		if !isSurrogate(p) && p != 0xFFFD {
			return p
		}
	}
}

func genClass(r *rng, allowSub bool) *classExpr {
	e := &classExpr{neg: r.chance(1, 3)}
	n := 1 + r.intn(4)
	for i := 0; i < n; i++ {
		a, b := genClassPoint(r), genClassPoint(r)
		if a > b {
			a, b = b, a
		}
		if r.chance(1, 3) {
			b = a
		}
		e.items = append(e.items, [2]int{a, b})
	}
	if r.chance(1, 3) {
		// the dash as a member, between two other items (as in [a\-z]), first or last
		k := r.intn(len(e.items) + 1)
		e.items = append(e.items[:k], append([][2]int{{'-', '-'}}, e.items[k:]...)...)
	}
	if allowSub && r.chance(1, 3) {
		e.sub = genClass(r, false)
		e.sub.sub = nil
	}
	return e
}

func literalText(r *rng, cps []int) string {
	var sb strings.Builder
	sb.WriteString("'")
	for _, c := range cps {
		switch {
		case c == '\n':
			sb.WriteString(`\n`)
		case c == '\r':
			sb.WriteString(`\r`)
		case c == '\t':
			sb.WriteString(`\t`)
		case c == '\'':
			sb.WriteString(`\'`)
		case c == '\\':
			sb.WriteString(`\\`)
		default:
			raw := c >= 0x20 && c != 0x7F && c != 0xFFFD
			switch k := r.intn(4); {
			case k == 0 && raw:
				sb.WriteString(string(rune(c)))
			case k == 1 && c < 0x80:
				sb.WriteString(fmt.Sprintf(`\x%02X`, c))
			case k <= 2 && c <= 0xFFFF:
				sb.WriteString(fmt.Sprintf(`\u%04x`, c))
			default:
				sb.WriteString(fmt.Sprintf(`\U%08X`, c))
			}
		}
	}
	sb.WriteString("'")
	return sb.String()
}

func checkC15(c *checkCtx) {
	c.level = "proof"
	c.cov.Rule = "random and exhaustive lists of well-formed ranges (dense small universe; Unicode boundary points) through rang3.Flatten/Subtract/Normalize and the proved Gallina model, outputs and callback sequences compared exactly; class expressions and literals printed as .lox text (all escape forms) through the real front-end, NFA edge labels compared with the model's get_ranges and with an independent point-wise evaluation; a case is non-trivial when at least two ranges overlap or touch, or the expression uses negation/difference/escapes"
	c.assume = []string{
		"model tied to rang3 by exact differential comparison on this run's inputs",
		"surrogate code points and U+FFFD are not generated as class members (not encodable / indistinguishable from decoding errors)",
	}
	c.coqObligations()
	checkEscapes(c) // escape decoding: parser.go unescape vs the model the C15_escape_* theorems are about

	// ---- (a) range algebra correspondence ----
	var cases []rangeReq
	add := func(op string, a, b [][2]int) { cases = append(cases, rangeReq{Op: op, A: a, B: b}) }
	n := 400
	if c.thorough() {
		n = 6000
	}
	for i := 0; i < n; i++ {
		small := c.rng.chance(1, 2)
		switch i % 3 {
		case 0:
			add("flatten", genRanges(c.rng, small, 7), nil)
		case 1:
			add("subtract", genRanges(c.rng, small, 6), genRanges(c.rng, small, 6))
		default:
			add("normalize", genRanges(c.rng, small, 6), nil)
		}
	}
	if c.thorough() {
		// exhaustive: all lists of <= 3 ranges over a 5-point universe
		var all [][2]int
		for a := 0; a < 5; a++ {
			for b := a; b < 5; b++ {
				all = append(all, [2]int{a, b})
			}
		}
		var lists [][][2]int
		lists = append(lists, nil)
		for _, x := range all {
			lists = append(lists, [][2]int{x})
			for _, y := range all {
				lists = append(lists, [][2]int{x, y})
				for _, z := range all {
					lists = append(lists, [][2]int{x, y, z})
				}
			}
		}
		for _, l := range lists {
			add("flatten", l, nil)
			add("normalize", l, nil)
		}
		for _, l := range lists {
			if len(l) > 2 {
				continue
			}
			for _, m := range lists {
				if len(m) > 2 {
					continue
				}
				add("subtract", l, m)
			}
		}
		c.cov.Exhaustive = true
	}
	// Go side (the functions mutate their argument: send copies)
	goReqs := make([]rangeReq, len(cases))
	for i, cs := range cases {
		goReqs[i] = rangeReq{Op: cs.Op, A: copyRanges(cs.A), B: copyRanges(cs.B)}
		if goReqs[i].A == nil {
			goReqs[i].A = [][2]int{}
		}
		if goReqs[i].B == nil {
			goReqs[i].B = [][2]int{}
		}
	}
	goOut, err := hookJSON[rangeReq, rangeResp]("ranges", goReqs)
	if err != nil {
		c.addFinding(finding{Signature: "hook-failed", Desc: err.Error(), NoInput: true, Theorem: "correspondence rang3", Replay: map[string]any{}})
		return
	}
	var mreqs []*req
	for _, cs := range cases {
		switch cs.Op {
		case "flatten":
			mreqs = append(mreqs, rangesReq("flatten", cs.A))
		case "subtract":
			mreqs = append(mreqs, rangesReq("subtract", cs.A, cs.B))
		default:
			mreqs = append(mreqs, rangesReq("normalize", cs.A))
		}
	}
	mOut, err := callModel(mreqs)
	if err != nil {
		c.addFinding(finding{Signature: "model-failed", Desc: err.Error(), NoInput: true, Theorem: "loxmodel", Replay: map[string]any{}})
		return
	}
	for i, cs := range cases {
		g, m := goOut[i], mOut[i]
		key := fmt.Sprint(cs)
		nontrivial := false
		for x := 0; x < len(cs.A); x++ {
			for y := x + 1; y < len(cs.A); y++ {
				a, b := cs.A[x], cs.A[y]
				if a[0] <= b[1]+1 && b[0] <= a[1]+1 {
					nontrivial = true
				}
			}
		}
		if cs.Op == "subtract" && len(cs.A) > 0 && len(cs.B) > 0 {
			nontrivial = true
		}
		c.note(key, nontrivial)
		if i < 3 {
			c.sample(map[string]any{"op": cs.Op, "a": cs.A, "b": cs.B, "go_out": g.Out, "go_calls": g.Calls})
		}
		mismatch := ""
		var witness any
		switch cs.Op {
		case "flatten":
			mo := m.intsK(2)
			ml := m.intsK(6)
			var gl []int
			for _, cl := range g.Calls {
				gl = append(gl, cl...)
			}
			if g.Panic != "" {
				mismatch = "Flatten panicked: " + g.Panic
			} else if !eqInts(flat(g.Out), mo[0:]) || !eqPairsLen(mo, len(g.Out)) {
				mismatch = fmt.Sprintf("Flatten output %v differs from model %v", g.Out, mo)
			} else if !eqInts(gl, ml[0:]) {
				mismatch = fmt.Sprintf("Flatten callback sequence %v differs from model %v", g.Calls, ml)
			}
			// independent semantic check of the Go output
			for _, p := range probePoints(cs.A, g.Out) {
				if inRanges(p, cs.A) != inRanges(p, g.Out) {
					witness = map[string]any{"code_point": p, "in_input": inRanges(p, cs.A), "in_output": inRanges(p, g.Out)}
					break
				}
			}
		case "subtract":
			w := m.word()
			if g.Panic != "" {
				mismatch = "Subtract panicked: " + g.Panic
			} else if w != "some" {
				mismatch = "model ran out of fuel (proved impossible for well-formed input)"
			} else {
				mo := m.intsK(2)
				if !eqInts(flat(g.Out), mo) {
					mismatch = fmt.Sprintf("Subtract output %v differs from model %v", g.Out, mo)
				}
			}
			for _, p := range probePoints(cs.A, cs.B, g.Out) {
				want := inRanges(p, cs.A) && !inRanges(p, cs.B)
				if want != inRanges(p, g.Out) {
					witness = map[string]any{"code_point": p, "expected_member": want, "in_output": inRanges(p, g.Out)}
					break
				}
			}
		default:
			w := m.word()
			if g.Panic != "" {
				mismatch = "Normalize panicked: " + g.Panic
			} else if w != "done" {
				mismatch = "model result " + w
			} else {
				ml := m.intsK(8)
				var gl []int
				for _, cl := range g.Calls {
					gl = append(gl, cl...)
				}
				if !eqInts(gl, ml) {
					mismatch = fmt.Sprintf("Normalize callback sequence %v differs from model %v", g.Calls, ml)
				}
				// replay the Go callbacks on the label set; pieces must be pairwise disjoint and cover the input
				pieces := map[[2]int]bool{}
				for _, x := range cs.A {
					pieces[x] = true
				}
				for _, cl := range g.Calls {
					delete(pieces, [2]int{cl[0], cl[1]})
					pieces[[2]int{cl[2], cl[3]}] = true
					pieces[[2]int{cl[4], cl[5]}] = true
					pieces[[2]int{cl[6], cl[7]}] = true
				}
				var pl [][2]int
				for x := range pieces {
					pl = append(pl, x)
				}
				for _, p := range probePoints(cs.A, pl) {
					cnt := 0
					for _, x := range pl {
						if x[0] <= p && p <= x[1] {
							cnt++
						}
					}
					if (cnt > 1) || (cnt == 1) != inRanges(p, cs.A) {
						witness = map[string]any{"code_point": p, "pieces_containing_it": cnt, "in_input": inRanges(p, cs.A)}
						break
					}
				}
			}
		}
		if mismatch != "" || witness != nil {
			sig := "rang3-" + cs.Op + "-mismatch"
			f := finding{Signature: sig, Desc: mismatch, Theorem: "correspondence rang3." + cs.Op + " vs RangeModel",
				Replay: map[string]any{"op": cs.Op, "a": cs.A, "b": cs.B, "go": g, "model": m.raw(), "witness": witness}}
			if witness == nil {
				f.NoInput = true
			} else {
				f.Desc += fmt.Sprintf(" ; the Go result has the wrong code-point set: %v", witness)
			}
			c.addFinding(f)
		}
	}

	// ---- (b) class expressions and literals through the real front-end ----
	nspecs := 16
	perSpec := 12
	if c.thorough() {
		nspecs = 60
	}
	type entry struct {
		class *classExpr
		lit   []int
		text  string
	}
	var dirs []string
	var entries [][]entry
	top := scratchDir("c15")
	defer os.RemoveAll(top)
	for s := 0; s < nspecs; s++ {
		var es []entry
		var sb strings.Builder
		sb.WriteString("@lexer\n")
		for k := 0; k < perSpec; k++ {
			var e entry
			if k%4 == 3 {
				n := 1 + c.rng.intn(5)
				for j := 0; j < n; j++ {
					e.lit = append(e.lit, genClassPoint(c.rng))
				}
				e.text = literalText(c.rng, e.lit)
			} else {
				e.class = genClass(c.rng, true)
				e.text = e.class.text(c.rng)
			}
			es = append(es, e)
			fmt.Fprintf(&sb, "@mode M%d {\n  T%d = %s\n}\n", k, k, e.text)
		}
		dir := filepath.Join(top, fmt.Sprintf("s%d", s))
		os.MkdirAll(dir, 0o755)
		os.WriteFile(filepath.Join(dir, "spec.lox"), []byte(sb.String()), 0o644)
		dirs = append(dirs, dir)
		entries = append(entries, es)
	}
	dumps, err := dumpDirs(dirs)
	if err != nil {
		c.addFinding(finding{Signature: "hook-failed", Desc: err.Error(), NoInput: true, Theorem: "loxverif dump", Replay: map[string]any{}})
		return
	}
	var creqs []*req
	type cref struct{ s, k int }
	var crefs []cref
	for s, es := range entries {
		for k, e := range es {
			if e.class != nil {
				q := newReq("class")
				e.class.encode(q)
				creqs = append(creqs, q)
				crefs = append(crefs, cref{s, k})
			}
		}
	}
	cOut, err := callModel(creqs)
	if err != nil {
		c.addFinding(finding{Signature: "model-failed", Desc: err.Error(), NoInput: true, Theorem: "loxmodel", Replay: map[string]any{}})
		return
	}
	modelRanges := map[cref][][2]int{}
	for i, r := range cOut {
		if r.word() == "some" {
			xs := r.intsK(2)
			var rs [][2]int
			for j := 0; j+1 < len(xs); j += 2 {
				rs = append(rs, [2]int{xs[j], xs[j+1]})
			}
			modelRanges[crefs[i]] = rs
		}
	}
	// the chain real lexer tokens -> class_char_rune -> class_items -> get_ranges (all Gallina) for classes without a difference
	nChain := 0
	defer func() {
		c.cov.Rule += fmt.Sprintf(" ; %d classes also compared with the Gallina chain class_char_rune / class_items / get_ranges over the tokens of the real front-end lexer", nChain)
	}()
	chainRanges := map[cref][][2]int{}
	chainPanic := map[cref]bool{}
	{
		var lreqs []escapeReq
		var lrefs []cref
		for s, es := range entries {
			for k, e := range es {
				if e.class != nil && e.class.sub == nil {
					lreqs = append(lreqs, escapeReq{Op: "tokens", Src: bytesOf("@lexer\nT = " + e.text + "\n")})
					lrefs = append(lrefs, cref{s, k})
				}
			}
		}
		lOut, err := hookJSON[escapeReq, escapeResp]("escape", lreqs)
		if err != nil {
			c.addFinding(finding{Signature: "hook-failed", Desc: err.Error(), NoInput: true, Theorem: "loxverif escape", Replay: map[string]any{}})
			return
		}
		var preqs []*req
		for i, ref := range lrefs {
			q := newReq("classtoks").b(entries[ref.s][ref.k].class.neg).i(len(lOut[i].Toks))
			for _, t := range lOut[i].Toks {
				q.b(t.Type == "CLASS_DASH").ints(t.Str)
			}
			preqs = append(preqs, q)
		}
		pOut, err := callModel(preqs)
		if err != nil {
			c.addFinding(finding{Signature: "model-failed", Desc: err.Error(), NoInput: true, Theorem: "loxmodel classtoks", Replay: map[string]any{}})
			return
		}
		for i, r := range pOut {
			if r.word() != "items" {
				chainPanic[lrefs[i]] = true
				continue
			}
			r.intsK(2)
			if r.word() == "some" {
				xs := r.intsK(2)
				rs := [][2]int{}
				for j := 0; j+1 < len(xs); j += 2 {
					rs = append(rs, [2]int{xs[j], xs[j+1]})
				}
				chainRanges[lrefs[i]] = rs
			}
		}
	}
	for s, es := range entries {
		d := dumps[s]
		if !d.OK {
			// an empty class or a rejected spec: the expression denotes no code point? then lox may still accept; report otherwise
			c.addFinding(finding{Signature: "class-spec-rejected", Desc: "a well-formed specification of class expressions was rejected: " + d.Stage + ": " + lastLines(d.Diag, 3),
				Replay: map[string]any{"spec": readFile(filepath.Join(dirs[s], "spec.lox")), "diag": d.Diag}})
			continue
		}
		byName := map[string]*jMode{}
		for i := range d.Modes {
			byName[d.Modes[i].Name] = &d.Modes[i]
		}
		for k, e := range es {
			m := byName[fmt.Sprintf("M%d", k)]
			if m == nil {
				continue
			}
			if e.class != nil {
				var got [][2]int
				for _, st := range m.NFA {
					for _, ed := range st.Edges {
						if !ed.Eps {
							got = append(got, [2]int{ed.B, ed.E})
						}
					}
				}
				sort.Slice(got, func(i, j int) bool { return got[i][0] < got[j][0] })
				want := modelRanges[cref{s, k}]
				c.note("class:"+e.text, e.class.neg || e.class.sub != nil || len(e.class.items) > 1)
				if s == 0 && k < 2 {
					c.sample(map[string]any{"class_text": e.text, "nfa_ranges": got})
				}
				var witness any
				for _, p := range probePoints(got, want, e.class.items) {
					if e.class.sem(p) != inRanges(p, got) {
						witness = map[string]any{"code_point": p, "expected_member": e.class.sem(p), "matched_by_lox": inRanges(p, got)}
						break
					}
				}
				if _, ok := chainRanges[cref{s, k}]; ok {
					nChain++
				}
				if ch, ok := chainRanges[cref{s, k}]; (ok && !eqInts(flat(got), flat(ch))) || chainPanic[cref{s, k}] {
					c.addFinding(finding{Signature: "class-token-chain-mismatch",
						Desc:    fmt.Sprintf("class %s: lox built ranges %v, but the Gallina chain class_char_rune / class_items / get_ranges over the tokens of the real front-end lexer gives %v (panic=%v)", e.text, got, ch, chainPanic[cref{s, k}]),
						Theorem: "correspondence on_char_class (toRune, x-y pairing) vs EscapeRune.class_char_rune / ClassModel.class_items",
						NoInput: witness == nil,
						Replay:  map[string]any{"class_text": e.text, "lox_ranges": got, "model_chain_ranges": ch, "witness": witness}})
				}
				if !eqInts(flat(got), flat(want)) || witness != nil {
					f := finding{Signature: "class-denotation-mismatch",
						Desc:    fmt.Sprintf("class %s: lox built ranges %v, model get_ranges gives %v", e.text, got, want),
						Theorem: "correspondence GetRanges/on_char_class vs ClassModel",
						Replay:  map[string]any{"class_text": e.text, "lox_ranges": got, "model_ranges": want, "witness": witness}}
					if witness == nil {
						f.NoInput = true
					} else {
						f.Desc += fmt.Sprintf(" ; wrong at %v", witness)
					}
					c.addFinding(f)
				}
			} else {
				// literal: follow the chain from the rule's begin state
				var got []int
				st := m.StartEps[0]
				states := map[int]*jNFAState{}
				for i := range m.NFA {
					states[m.NFA[i].ID] = &m.NFA[i]
				}
				for steps := 0; steps < 100; steps++ {
					ns := states[st]
					if ns == nil || len(ns.Edges) != 1 || ns.Edges[0].Eps {
						break
					}
					ed := ns.Edges[0]
					if ed.B != ed.E {
						got = append(got, -1)
					} else {
						got = append(got, ed.B)
					}
					st = ed.To[0]
				}
				c.note("lit:"+e.text, len(e.lit) > 1)
				if !eqInts(got, e.lit) {
					c.addFinding(finding{Signature: "literal-denotation-mismatch",
						Desc:   fmt.Sprintf("literal %s: lox matches code points %v, expected %v", e.text, got, e.lit),
						Replay: map[string]any{"literal_text": e.text, "lox": got, "expected": e.lit}})
				}
			}
		}
	}
	c.cov.Programs = nspecs
}

func eqPairsLen(flatInts []int, n int) bool { return len(flatInts) == 2*n }

func readFile(p string) string {
	b, _ := os.ReadFile(p)
	return string(b)
}
