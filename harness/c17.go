package main

import (
	"encoding/hex"
	"fmt"
	"regexp"
	"sort"
	"strconv"
	"strings"
)

func init() { checks["C17"] = checkC17 }

type aDecl struct {
	id    int
	kind  string // token frag macro external mode rule
	name  string
	alts  [][]lterm
	acts  []lact
	names []string
	body  []*aDecl
	start bool
	prods [][]gTerm
	lits  map[string]string // token name -> literal text, for alias printing (filled by the printer's owner)
}

type aSpec struct {
	files     [][]*aDecl
	fault     string
	extraLits map[string]string
}

func hx(s string) string {
	if s == "" {
		return "-"
	}
	return hex.EncodeToString([]byte(s))
}

var cardCode = map[string]int{"": 0, "?": 1, "*": 2, "*?": 3, "+": 4, "+?": 5}

func encLAlts(q *req, alts [][]lterm) {
	q.i(len(alts))
	for _, seq := range alts {
		q.i(len(seq))
		for _, t := range seq {
			switch t.re.kind {
			case 0:
				q.i(0).ints(t.re.lit)
			case 1:
				items := append([][2]int{}, t.re.class.items...)
				if t.re.class.sub != nil {
					items = append(items, t.re.class.sub.items...)
				}
				q.i(2).i(len(items))
				for _, it := range items {
					q.i(it[0]).i(it[1])
				}
			case 2:
				q.i(2).i(1).i(0).i(maxRune)
			case 3:
				q.i(1)
				q.sb.WriteString(" " + hx(t.re.ref))
			case 4:
				q.i(3)
				encLAlts(q, t.re.alts)
			}
			q.i(cardCode[t.card])
		}
	}
}

func encActs(q *req, acts []lact) {
	q.i(len(acts))
	for _, a := range acts {
		switch a.kind {
		case "discard":
			q.i(0)
		case "push":
			q.i(1)
			m := a.arg
			if m == "" {
				m = "$default"
			}
			q.sb.WriteString(" " + hx(m))
		case "pop":
			q.i(2)
		default:
			q.i(3)
			q.sb.WriteString(" " + hx(a.arg))
		}
	}
}

func encPTerm(q *req, t gTerm, lits map[string]string) {
	base := func() {
		switch t.kind {
		case 0:
			if t.lit {
				q.i(1)
				q.sb.WriteString(" " + hx(lits[t.name]))
			} else {
				q.i(0)
				q.sb.WriteString(" " + hx(t.name))
			}
		case 1:
			q.i(0)
			q.sb.WriteString(" " + hx(t.name))
		case 2:
			q.i(2)
		case 3:
			q.i(4)
			encPTerm(q, *t.elem, lits)
			encPTerm(q, *t.sep, lits)
			q.b(t.card == "?")
		}
	}
	if t.kind == 3 {
		base()
		return
	}
	switch t.card {
	case "*":
		q.i(3).i(0)
	case "*!":
		q.i(3).i(1)
	case "+":
		q.i(3).i(2)
	case "?":
		q.i(3).i(3)
	}
	base()
}

func encDecls(q *req, ds []*aDecl, lits map[string]string) {
	q.i(len(ds))
	for _, d := range ds {
		switch d.kind {
		case "token":
			q.i(0).i(d.id)
			q.sb.WriteString(" " + hx(d.name))
			encLAlts(q, d.alts)
			encActs(q, d.acts)
		case "frag":
			q.i(1).i(d.id)
			encLAlts(q, d.alts)
			encActs(q, d.acts)
		case "macro":
			q.i(2).i(d.id)
			q.sb.WriteString(" " + hx(d.name))
			encLAlts(q, d.alts)
		case "external":
			q.i(3).i(d.id).i(len(d.names))
			for _, n := range d.names {
				q.sb.WriteString(" " + hx(n))
			}
		case "mode":
			q.i(4).i(d.id)
			q.sb.WriteString(" " + hx(d.name))
			encDecls(q, d.body, lits)
		case "rule":
			q.i(5).i(d.id).b(d.start)
			q.sb.WriteString(" " + hx(d.name))
			q.i(len(d.prods))
			for _, p := range d.prods {
				q.i(len(p))
				for _, t := range p {
					encPTerm(q, t, lits)
				}
			}
		}
	}
}

// text prints the files; lineOf maps "file:line" to the declaration id
func (s *aSpec) text(r *rng, lits map[string]string) (files map[string]string, lineOf map[string]int) {
	files = map[string]string{}
	lineOf = map[string]int{}
	for fi, ds := range s.files {
		fname := fmt.Sprintf("%c.lox", 'a'+fi)
		var sb strings.Builder
		line := 1
		section := ""
		emit := func(id int, txt string) {
			lineOf[fmt.Sprintf("%s:%d", fname, line)] = id
			sb.WriteString(txt + "\n")
			line++
		}
		sect := func(name string) {
			if section != name {
				section = name
				sb.WriteString(name + "\n")
				line++
			}
		}
		var printDecl func(d *aDecl, ind string)
		printDecl = func(d *aDecl, ind string) {
			switch d.kind {
			case "token", "frag", "macro":
				sect("@lexer")
				var t string
				switch d.kind {
				case "token":
					t = d.name + " = " + altsText(r, d.alts)
				case "frag":
					t = "@frag " + altsText(r, d.alts)
				default:
					t = "@macro " + d.name + " = " + altsText(r, d.alts)
				}
				for _, a := range d.acts {
					t += " " + a.text()
				}
				emit(d.id, ind+t)
			case "external":
				sect("@lexer")
				emit(d.id, ind+"@external "+strings.Join(d.names, " "))
			case "mode":
				sect("@lexer")
				emit(d.id, ind+"@mode "+d.name+" {")
				for _, b := range d.body {
					printDecl(b, ind+"  ")
				}
				emit(d.id, ind+"}")
			case "rule":
				sect("@parser")
				g := &gSpec{}
				for n, l := range lits {
					_ = l
					g.tokens = append(g.tokens, n)
				}
				t := ""
				if d.start {
					t = "@start "
				}
				t += d.name + " = "
				for j, p := range d.prods {
					if j > 0 {
						t += " | "
					}
					if len(p) == 0 {
						t += "@empty"
					}
					for k, tm := range p {
						if k > 0 {
							t += " "
						}
						t += c17TermText(tm, lits)
					}
				}
				emit(d.id, t)
			}
		}
		for _, d := range ds {
			printDecl(d, "")
		}
		files[fname] = sb.String()
	}
	return
}

func c17TermText(t gTerm, lits map[string]string) string {
	var s string
	switch t.kind {
	case 0:
		s = t.name
		if t.lit {
			s = "'" + lits[t.name] + "'"
		}
	case 1:
		s = t.name
	case 2:
		s = "@error"
	case 3:
		s = "@list(" + c17TermText(*t.elem, lits) + ", " + c17TermText(*t.sep, lits) + ")"
	}
	return s + t.card
}

func litTerm(s string) lterm {
	var cps []int
	for _, c := range s {
		cps = append(cps, int(c))
	}
	return lterm{re: &lre{kind: 0, lit: cps}}
}

// a well-formed base specification
func genASpec(r *rng) (*aSpec, map[string]string) {
	id := 0
	next := func() int { id++; return id }
	lits := map[string]string{}
	var lex []*aDecl
	punct := []string{"+", "-", "(", ")", ",", ";", "=", "é"}
	nt := 3 + r.intn(3)
	for i := 0; i < nt; i++ {
		n := fmt.Sprintf("TK%d", i)
		lits[n] = punct[i]
		lex = append(lex, &aDecl{id: next(), kind: "token", name: n, alts: [][]lterm{{litTerm(punct[i])}}})
	}
	lex = append(lex, &aDecl{id: next(), kind: "macro", name: "DIGIT", alts: [][]lterm{{{re: &lre{kind: 1, class: &classExpr{items: [][2]int{{'0', '9'}}}}}}}})
	lex = append(lex, &aDecl{id: next(), kind: "token", name: "NUM", alts: [][]lterm{{{re: &lre{kind: 3, ref: "DIGIT"}, card: "+"}}}})
	lex = append(lex, &aDecl{id: next(), kind: "token", name: "ID", alts: [][]lterm{{{re: &lre{kind: 1, class: &classExpr{items: [][2]int{{'a', 'z'}}}}}, {re: &lre{kind: 1, class: &classExpr{items: [][2]int{{'a', 'z'}, {'0', '9'}, {'_', '_'}}}}, card: "*"}}}})
	lex = append(lex, &aDecl{id: next(), kind: "frag", alts: [][]lterm{{{re: &lre{kind: 1, class: &classExpr{items: [][2]int{{' ', ' '}, {'\n', '\n'}}}}, card: "+"}}}, acts: []lact{{kind: "discard"}}})
	if r.chance(2, 3) {
		mode := &aDecl{id: next(), kind: "mode", name: "Str"}
		mode.body = append(mode.body, &aDecl{id: next(), kind: "token", name: "STREND", alts: [][]lterm{{litTerm("\"")}}, acts: []lact{{kind: "pop"}}})
		mode.body = append(mode.body, &aDecl{id: next(), kind: "frag", alts: [][]lterm{{{re: &lre{kind: 1, class: &classExpr{neg: true, items: [][2]int{{'"', '"'}, {'\n', '\n'}}}}}}}})
		lex = append(lex, &aDecl{id: next(), kind: "token", name: "STRBEGIN", alts: [][]lterm{{litTerm("\"")}}, acts: []lact{{kind: "push", arg: "Str"}}})
		lex = append(lex, mode)
	}
	if r.chance(1, 2) {
		lex = append(lex, &aDecl{id: next(), kind: "external", names: []string{"EXTA", "EXTB"}})
	}
	tok := func(n string, lit bool) gTerm { return gTerm{kind: 0, name: n, lit: lit} }
	rule := func(n string) gTerm { return gTerm{kind: 1, name: n} }
	var par []*aDecl
	elem := tok("NUM", false)
	sep := tok("TK1", true)
	item := &aDecl{id: next(), kind: "rule", name: "item", prods: [][]gTerm{{tok("NUM", false)}, {tok("ID", false), tok("TK0", r.chance(1, 2)), rule("item")}}}
	listT := gTerm{kind: 3, elem: &elem, sep: &sep}
	if r.chance(1, 2) {
		listT.card = "?"
	}
	top := &aDecl{id: next(), kind: "rule", name: "top", start: true, prods: [][]gTerm{
		{withCard(rule("item"), pick(r, []string{"*", "+", "?", "*!", ""})), tok("TK2", true)},
		{tok("TK0", false), listT, tok("TK2", false)},
	}}
	par = append(par, top, item)
	s := &aSpec{}
	if r.chance(1, 3) {
		cut := 1 + r.intn(len(lex)-1)
		s.files = [][]*aDecl{lex[:cut], append(append([]*aDecl{}, lex[cut:]...), par...)}
	} else {
		s.files = [][]*aDecl{append(append([]*aDecl{}, lex...), par...)}
	}
	return s, lits
}

func withCard(t gTerm, c string) gTerm { t.card = c; return t }

func (s *aSpec) all() []*aDecl {
	var out []*aDecl
	var walk func(ds []*aDecl)
	walk = func(ds []*aDecl) {
		for _, d := range ds {
			out = append(out, d)
			walk(d.body)
		}
	}
	for _, f := range s.files {
		walk(f)
	}
	return out
}

func (s *aSpec) find(kind string) []*aDecl {
	var out []*aDecl
	for _, d := range s.all() {
		if d.kind == kind {
			out = append(out, d)
		}
	}
	return out
}

// injectFault mutates a freshly generated well-formed spec; returns the fault name ("" = none applied)
func injectFault(r *rng, s *aSpec, k int) string {
	toks := s.find("token")
	frags := s.find("frag")
	rules := s.find("rule")
	macros := s.find("macro")
	var idTok *aDecl
	for _, t := range toks {
		if t.name == "ID" {
			idTok = t
		}
	}
	switch k {
	case 0:
		toks[len(toks)-1].name = toks[0].name
		return "duplicate token name"
	case 1:
		macros[0].name = "NUM"
		// keep references valid? DIGIT is now undefined as macro where used; this is a second fault: rename the use as well
		for _, d := range s.all() {
			for _, seq := range d.alts {
				for _, t := range seq {
					if t.re.kind == 3 && t.re.ref == "DIGIT" {
						t.re.kind, t.re.class = 1, &classExpr{items: [][2]int{{'0', '9'}}}
					}
				}
			}
		}
		return "macro and token share a name"
	case 2:
		toks[1].name = pick(r, []string{"lower", "TK_", "A__B", "Tk", "HTTP_v2", "A_b", "AB_cD", "X_1y", "A_B_c", "Ab_C"})
		return "bad token name"
	case 3:
		toks[1].name = pick(r, []string{"EOF", "ERROR"})
		return "reserved token name"
	case 4:
		frags[0].alts = [][]lterm{{{re: &lre{kind: 3, ref: "NOSUCH"}}}}
		return "undefined macro"
	case 5:
		frags[0].alts = [][]lterm{{{re: &lre{kind: 3, ref: "NUM"}}}}
		return "reference to a token as macro"
	case 6:
		toks[0].acts = append(toks[0].acts, lact{kind: "push", arg: "Nowhere"})
		return "undefined mode"
	case 7:
		frags[0].acts = []lact{{kind: "emit", arg: "NOTOK"}}
		return "emit of undefined token"
	case 8:
		frags[0].acts = []lact{{kind: "emit", arg: "DIGIT"}}
		return "emit of a macro"
	case 9:
		rules[1].prods[0] = []gTerm{{kind: 1, name: "nosuchrule"}}
		return "undefined rule or token in parser"
	case 10:
		rules[0].prods[0] = append(rules[0].prods[0], gTerm{kind: 0, name: "ZZ", lit: true})
		s.extraLits = map[string]string{"ZZ": "zz"}
		return "unknown literal alias"
	case 11:
		// two tokens with the same literal, and the alias used
		toks[1].alts = toks[0].alts
		rules[0].prods[0] = append(rules[0].prods[0], gTerm{kind: 0, name: toks[0].name, lit: true})
		return "ambiguous literal alias"
	case 12:
		rules[1].start = true
		return "two @start"
	case 13:
		rules[0].start = false
		return "no @start"
	case 14:
		toks[0].acts = append(toks[0].acts, lact{kind: "discard"})
		return "@discard on a token"
	case 15:
		toks[0].acts = append(toks[0].acts, lact{kind: "emit", arg: "NUM"})
		return "@emit on a token"
	case 16:
		frags[0].acts = []lact{{kind: "discard"}, {kind: "discard"}}
		return "two @discard on a fragment"
	case 17:
		frags[0].acts = []lact{{kind: "emit", arg: "NUM"}, {kind: "emit", arg: "ID"}}
		return "two @emit on a fragment"
	case 18:
		idTok.alts = [][]lterm{{{re: &lre{kind: 0, lit: nil}}, litTerm("x")}}
		return "empty literal"
	case 19:
		macros[0].alts = [][]lterm{{{re: &lre{kind: 3, ref: "DIGIT"}}, litTerm("0")}}
		return "macro cycle (used)"
	case 20:
		idTok.alts = [][]lterm{{{re: &lre{kind: 1, class: &classExpr{items: [][2]int{{'z', 'a'}}}}}}}
		return "class range with lower bound above upper bound"
	case 21:
		s.files[0] = append([]*aDecl{
			{id: 9001, kind: "macro", name: "CYA", alts: [][]lterm{{{re: &lre{kind: 3, ref: "CYB"}}}}},
			{id: 9002, kind: "macro", name: "CYB", alts: [][]lterm{{{re: &lre{kind: 3, ref: "CYA"}}}}}}, s.files[0]...)
		return "macro cycle (unused)"
	case 22:
		ie := gTerm{kind: 1, name: "item"}
		is := gTerm{kind: 0, name: toks[0].name}
		e := gTerm{kind: 3, elem: &ie, sep: &is}
		sp := gTerm{kind: 0, name: toks[1].name}
		rules[0].prods[1][1] = gTerm{kind: 3, elem: &e, sep: &sp}
		return "@list entry not simple"
	case 23:
		modes := s.find("mode")
		if len(modes) == 0 {
			return ""
		}
		modes[0].name = "NUM"
		for _, d := range s.all() {
			for i := range d.acts {
				if d.acts[i].kind == "push" {
					d.acts[i].arg = "NUM"
				}
			}
		}
		return "mode and token share a name"
	case 25:
		rules[0].prods[0] = append(rules[0].prods[0], gTerm{kind: 0, name: "EMPTYLIT", lit: true})
		s.extraLits = map[string]string{"EMPTYLIT": ""}
		return "empty literal as parser term"
	case 26:
		// a token that is one literal WITH a cardinality defines no alias
		m := &aDecl{id: 9100, kind: "mode", name: "Rl"}
		m.body = []*aDecl{{id: 9101, kind: "token", name: "RULER", alts: [][]lterm{{{re: litTerm("%").re, card: pick(r, []string{"+", "*", "?", "+?", "*?"})}}}}}
		s.files[0] = append([]*aDecl{m}, s.files[0]...)
		rules[0].prods[0] = append(rules[0].prods[0], gTerm{kind: 0, name: "RULERLIT", lit: true})
		s.extraLits = map[string]string{"RULERLIT": "%"}
		return "literal with cardinality used as alias"
	case 27:
		// NOT a fault: TK0 = '+' and (in another mode) PLUSES = '+'+ ; '+' is the alias of TK0 only
		m := &aDecl{id: 9100, kind: "mode", name: "Rl"}
		m.body = []*aDecl{{id: 9101, kind: "token", name: "PLUSES", alts: [][]lterm{{{re: litTerm(s.litOf(toks[0])).re, card: pick(r, []string{"+", "*", "?"})}}}}}
		s.files[len(s.files)-1] = append([]*aDecl{m}, s.files[len(s.files)-1]...)
		rules[0].prods[0] = append(rules[0].prods[0], gTerm{kind: 0, name: toks[0].name, lit: true})
		return "well-formed: literal token next to the same literal with cardinality"
	case 28, 29, 30, 31:
		// @push_mode names something that exists but is not a mode
		var n string
		switch k {
		case 28:
			n = "NUM"
		case 29:
			n = "DIGIT"
		case 30:
			n = "item"
		default:
			if len(s.find("external")) == 0 {
				return ""
			}
			n = "EXTA"
		}
		tgt := pick(r, append(append([]*aDecl{}, toks[:2]...), frags[0]))
		tgt.acts = append(tgt.acts, lact{kind: "push", arg: n})
		return "@push_mode of a " + []string{"token", "macro", "rule", "external token"}[k-28]
	case 32:
		// NOT a fault: @push_mode() of the default mode, and of a mode declared later / in another file
		toks[0].acts = append(toks[0].acts, lact{kind: "push", arg: ""})
		if ms := s.find("mode"); len(ms) > 0 {
			toks[1].acts = append(toks[1].acts, lact{kind: "push", arg: ms[0].name})
		}
		return "well-formed: @push_mode of the default mode and of a declared mode"
	case 33:
		// NOT a fault: digits and single underscores inside a name
		toks[1].name = pick(r, []string{"UTF_8", "A_1", "A1_B2_C3", "X9"})
		return "well-formed: token name with digits and single underscores"
	case 34:
		macros[0].name = pick(r, []string{"HEX_d", "Dig", "D__X", "D_", "DIG_it"})
		for _, d := range s.all() {
			for _, seq := range d.alts {
				for _, t := range seq {
					if t.re.kind == 3 && t.re.ref == "DIGIT" {
						t.re.ref = macros[0].name
					}
				}
			}
		}
		return "bad macro name"
	case 35:
		exts := s.find("external")
		if len(exts) == 0 {
			return ""
		}
		exts[0].names[0] = pick(r, []string{"EXT_a", "Ext", "EXT__A", "EXTA_", "E_xT"})
		return "bad external name"
	case 24:
		rules[1].name = "TK0"
		for _, d := range rules {
			for _, p := range d.prods {
				for i := range p {
					if p[i].kind == 1 && p[i].name == "item" {
						p[i].name = "TK0"
					}
				}
			}
		}
		return "rule and token share a name"
	}
	return ""
}

const c17MaxFault = 35

func (s *aSpec) litOf(d *aDecl) string {
	var sb strings.Builder
	for _, cp := range d.alts[0][0].re.lit {
		sb.WriteRune(rune(cp))
	}
	return sb.String()
}

var diagPatterns = []struct {
	re   *regexp.Regexp
	kind int
}{
	{regexp.MustCompile(`@start redefined`), 10},
	{regexp.MustCompile(` redefined$`), 0},
	{regexp.MustCompile(`name must be all uppercase`), 1},
	{regexp.MustCompile(`is a reserved name`), 2},
	{regexp.MustCompile(`undefined mode`), 9},
	{regexp.MustCompile(`undefined: `), 3},
	{regexp.MustCompile(`not a token: `), 4},
	{regexp.MustCompile(`term is not a macro`), 5},
	{regexp.MustCompile(`is not a parser or token rule`), 6},
	{regexp.MustCompile(`unknown token literal`), 7},
	{regexp.MustCompile(`ambiguous token literal`), 8},
	{regexp.MustCompile(`@start rule undefined`), 11},
	{regexp.MustCompile(`literal cannot be empty`), 12},
	{regexp.MustCompile(`tokens cannot be discarded`), 13},
	{regexp.MustCompile(`@emit is not allowed in token actions`), 14},
	{regexp.MustCompile(`only have one @discard`), 15},
	{regexp.MustCompile(`only have one @emit`), 16},
	{regexp.MustCompile(`cannot be discarded and emitted`), 17},
	{regexp.MustCompile(`macro cycle detected`), 18},
	{regexp.MustCompile(`@list entry param`), 19},
	{regexp.MustCompile(`@list separator param`), 20},
	{regexp.MustCompile(`invalid character range`), 22},
}

var kindNames = []string{"redefined", "bad name", "reserved name", "undefined", "not a token", "not a macro", "not rule or token", "unknown alias", "ambiguous alias", "undefined mode", "@start redefined", "@start undefined", "empty literal", "token @discard", "token @emit", "frag two @discard", "frag two @emit", "frag @discard and @emit", "macro cycle", "@list entry not simple", "@list separator not simple", "other", "bad range"}

var posRe = regexp.MustCompile(`([a-z]\.lox):(\d+):\d+: (.*)$`)

func parseDiags(diag string, lineOf map[string]int) (out [][2]int, unknown []string) {
	for _, l := range strings.Split(diag, "\n") {
		l = strings.TrimSpace(l)
		if l == "" {
			continue
		}
		msg := l
		id := -1
		if m := posRe.FindStringSubmatch(l); m != nil {
			msg = m[3]
			if v, ok := lineOf[m[1]+":"+m[2]]; ok {
				id = v
			} else {
				id = -2
			}
		}
		kind := -1
		for _, p := range diagPatterns {
			if p.re.MatchString(msg) {
				kind = p.kind
				break
			}
		}
		if kind < 0 {
			if strings.Contains(msg, "defined here") || strings.Contains(msg, "previously defined") || strings.Contains(msg, "Failed to parse") {
				continue
			}
			unknown = append(unknown, l)
			continue
		}
		out = append(out, [2]int{kind, id})
	}
	return
}

func checkC17(c *checkCtx) {
	c.level = "proof"
	c.cov.Rule = "well-formed specifications (tokens with literal aliases, macros, fragments, modes with push/pop, @external, sugar and @list in parser rules, one or two files) and 31 kinds of single-fault variants (plus two well-formed look-alikes: a literal token beside the same literal with a cardinality; @push_mode of the default or a later-declared mode) of them (fault in any section, mode or file); lox's verdict, every diagnostic's kind and the declaration its position lies in are compared with the Gallina mirror Analyze.analyze, and the verdict with the property's own predicate well_formed; non-trivial = a faulty variant, or a two-file / moded specification"
	c.assume = []string{"Gen/Analyze.v mirrors the passes of internal/ast by hand and is tied to lox by this comparison (sampled specifications); the theorems (analyze_sound_for_wf, analyze_accepts_iff, reject_points_into_fault) hold for all abstract specifications"}
	c.coqObligations()
	n := 8
	if c.thorough() {
		n = 60
	}
	ws := newWorkspace("c17")
	defer ws.close()
	type meta struct {
		sp     *aSpec
		lits   map[string]string
		lineOf map[string]int
	}
	var metas []*meta
	for i := 0; i < n; i++ {
		for k := -1; k <= c17MaxFault; k++ {
			r2 := newRng(c.seed*1000 + int64(i))
			sp, lits := genASpec(r2)
			if k >= 0 {
				sp.fault = injectFault(r2, sp, k)
				if sp.fault == "" {
					continue
				}
			}
			for k2, v := range sp.extraLits {
				lits[k2] = v
			}
			files, lineOf := sp.text(c.rng, lits)
			s := ws.addFiles(files)
			m := &meta{sp, lits, lineOf}
			s.tag = m
			metas = append(metas, m)
		}
	}
	if err := ws.dumpAll(); err != nil {
		c.addFinding(finding{Signature: "hook-failed", Desc: err.Error(), NoInput: true, Theorem: "loxverif dump", Replay: map[string]any{}})
		return
	}
	var reqs []*req
	for _, s := range ws.specs {
		m := s.tag.(*meta)
		q := newReq("analyze").i(len(m.sp.files))
		for _, f := range m.sp.files {
			encDecls(q, f, m.lits)
		}
		reqs = append(reqs, q)
	}
	ans, err := callModel(reqs)
	if err != nil {
		c.addFinding(finding{Signature: "model-failed", Desc: err.Error(), NoInput: true, Theorem: "loxmodel", Replay: map[string]any{}})
		return
	}
	for i, s := range ws.specs {
		m := s.tag.(*meta)
		a := ans[i]
		if a.toks[0] == "exn" {
			c.addFinding(finding{Signature: "model-failed", Desc: a.raw(), NoInput: true, Theorem: "loxmodel analyze", Replay: map[string]any{"spec": s.loxText}})
			continue
		}
		wf := a.int() == 1
		a.int()
		nd := a.int()
		var want [][2]int
		for k := 0; k < nd; k++ {
			want = append(want, [2]int{a.int(), a.int()})
		}
		d := s.dump
		c.note(s.loxText, m.sp.fault != "" || len(m.sp.files) > 1)
		if len(c.cov.Samples) < 4 && m.sp.fault != "" && i%7 == 3 {
			c.sample(map[string]any{"fault": m.sp.fault, "files": s.files, "lox_diagnostics": d.Diag})
		}
		if d.Stage == "panic" {
			c.addFinding(finding{Signature: "generator-panic:" + m.sp.fault, Desc: "lox panicked on a specification with fault '" + m.sp.fault + "': " + lastLines(d.Diag, 2),
				Replay: map[string]any{"spec": s.loxText, "fault": m.sp.fault}})
			continue
		}
		accepted := d.OK
		got, unknown := parseDiags(d.Diag, m.lineOf)
		if d.Stage == "parse" {
			c.addFinding(finding{Signature: "spec-does-not-parse:" + m.sp.fault, Desc: "harness produced text lox cannot parse: " + lastLines(d.Diag, 2), NoInput: true, Theorem: "harness printer", Replay: map[string]any{"spec": s.loxText}})
			continue
		}
		// property level
		if wf && !accepted {
			c.addFinding(finding{Signature: "wellformed-spec-rejected", Desc: "a well-formed specification is rejected: " + lastLines(d.Diag, 3),
				Replay: map[string]any{"spec": s.loxText, "diag": d.Diag}})
		}
		if !wf && accepted {
			c.addFinding(finding{Signature: "illformed-spec-accepted:" + m.sp.fault,
				Desc:   "a specification with the fault '" + m.sp.fault + "' is accepted without any diagnostic",
				Replay: map[string]any{"spec": s.loxText, "fault": m.sp.fault}})
		}
		// correspondence with the mirror
		sortD := func(x [][2]int) {
			sort.Slice(x, func(i, j int) bool {
				if x[i][0] != x[j][0] {
					return x[i][0] < x[j][0]
				}
				return x[i][1] < x[j][1]
			})
		}
		g2 := append([][2]int{}, got...)
		w2 := append([][2]int{}, want...)
		sortD(g2)
		sortD(w2)
		if fmt.Sprint(g2) != fmt.Sprint(w2) || len(unknown) > 0 {
			show := func(x [][2]int) string {
				var p []string
				for _, e := range x {
					p = append(p, kindNames[e[0]]+"@decl"+strconv.Itoa(e[1]))
				}
				return strings.Join(p, ", ")
			}
			c.addFinding(finding{Signature: "analyze-model-mismatch:" + m.sp.fault,
				Desc:    fmt.Sprintf("fault '%s': lox reports [%s] (unrecognised: %v), the mirror Analyze.analyze gives [%s]", m.sp.fault, show(got), unknown, show(want)),
				Theorem: "correspondence ast passes vs Gen/Analyze.analyze",
				Replay:  map[string]any{"spec": s.loxText, "fault": m.sp.fault, "diag": d.Diag}})
		}
		// the position lies inside the faulty declaration: id -2 = a line that belongs to no declaration
		for _, e := range got {
			if e[1] == -2 {
				c.addFinding(finding{Signature: "diagnostic-outside-any-declaration", Desc: "a diagnostic points to a line that holds no declaration: " + lastLines(d.Diag, 3),
					Replay: map[string]any{"spec": s.loxText, "diag": d.Diag}})
			}
		}
	}
	c.cov.Programs = len(ws.specs)
}
