package main

import (
	"encoding/json"
	"fmt"
	"os"
	"strconv"
	"time"
)

var checks = map[string]func(c *checkCtx){}

func main() {
	if len(os.Args) < 3 || os.Args[1] != "check" {
		fmt.Fprintln(os.Stderr, "usage: harness check <ID> [--tier quick|thorough] [--replay file]")
		os.Exit(2)
	}
	id := os.Args[2]
	tier := os.Getenv("VERIF_TIER")
	replay := ""
	for i := 3; i < len(os.Args); i++ {
		switch os.Args[i] {
		case "--tier":
			i++
			tier = os.Args[i]
		case "--replay":
			i++
			replay = os.Args[i]
		}
	}
	if tier != "thorough" {
		tier = "quick"
	}
	seed := int64(1)
	if s := os.Getenv("VERIF_SEED"); s != "" {
		if v, err := strconv.ParseInt(s, 10, 64); err == nil {
			seed = v
		}
	}
	fn, ok := checks[id]
	if !ok {
		fmt.Fprintln(os.Stderr, "unknown property", id)
		os.Exit(2)
	}
	replaySig := ""
	if replay != "" {
		// a replay file records the seed and tier of the run that produced it: generation is a function of the seed,
		// so the same run is repeated and only the recorded finding is looked for
		var rf struct {
			Signature string `json:"signature"`
			Seed      int64  `json:"seed"`
			Tier      string `json:"tier"`
		}
		data, err := os.ReadFile(replay)
		if err != nil || json.Unmarshal(data, &rf) != nil || rf.Signature == "" {
			fmt.Fprintln(os.Stderr, "cannot read replay file", replay)
			os.Exit(2)
		}
		seed, replaySig = rf.Seed, rf.Signature
		if rf.Tier == "thorough" {
			tier = "thorough"
		}
	}
	c := &checkCtx{id: id, tier: tier, seed: seed, rng: newRng(seed), start: time.Now(),
		distinct: map[string]bool{}, level: "proof", replaySig: replaySig, replayPath: replay}
	if err := buildTools(); err != nil {
		c.addFinding(finding{Signature: "build-failed", Desc: err.Error(), NoInput: true,
			Theorem: "go build of /repo", Replay: map[string]any{"cmd": "go build ./cmd/lox"}})
		os.Exit(c.finish())
	}
	fn(c)
	os.Exit(c.finish())
}
