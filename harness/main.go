package main

import (
	"fmt"
	"os"
	"strconv"
	"time"
)

var checks = map[string]func(c *checkCtx){}

func main() {
	if len(os.Args) < 3 || os.Args[1] != "check" {
		fmt.Fprintln(os.Stderr, "usage: harness check <ID> [--tier quick|thorough] [--replay file]")
		os.Exit(2)
	}
	id := os.Args[2]
	tier := os.Getenv("VERIF_TIER")
	replay := ""
	for i := 3; i < len(os.Args); i++ {
		switch os.Args[i] {
		case "--tier":
			i++
			tier = os.Args[i]
		case "--replay":
			i++
			replay = os.Args[i]
		}
	}
	if tier != "thorough" {
		tier = "quick"
	}
	seed := int64(1)
	if s := os.Getenv("VERIF_SEED"); s != "" {
		if v, err := strconv.ParseInt(s, 10, 64); err == nil {
			seed = v
		}
	}
	fn, ok := checks[id]
	if !ok {
		fmt.Fprintln(os.Stderr, "unknown property", id)
		os.Exit(2)
	}
	c := &checkCtx{id: id, tier: tier, seed: seed, rng: newRng(seed), start: time.Now(),
		distinct: map[string]bool{}, level: "proof"}
	_ = replay
	if err := buildTools(); err != nil {
		c.addFinding(finding{Signature: "build-failed", Desc: err.Error(), NoInput: true,
			Theorem: "go build of /repo", Replay: map[string]any{"cmd": "go build ./cmd/lox"}})
		os.Exit(c.finish())
	}
	fn(c)
	os.Exit(c.finish())
}
