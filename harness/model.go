package main

import (
	"bytes"
	"fmt"
	"strconv"
	"strings"
	"time"
)

// A request to the extracted Gallina model: a command word and integers.
type req struct {
	sb strings.Builder
}

func newReq(cmd string) *req { r := &req{}; r.sb.WriteString(cmd); return r }
func (r *req) i(v int) *req  { r.sb.WriteByte(' '); r.sb.WriteString(strconv.Itoa(v)); return r }
func (r *req) b(v bool) *req {
	if v {
		return r.i(1)
	}
	return r.i(0)
}
func (r *req) ints(v []int) *req {
	r.i(len(v))
	for _, x := range v {
		r.i(x)
	}
	return r
}
func (r *req) String() string { return r.sb.String() }

// resp is a cursor over one answer line.
type resp struct {
	toks []string
	p    int
}

func (r *resp) word() string {
	if r.p >= len(r.toks) {
		return ""
	}
	w := r.toks[r.p]
	r.p++
	return w
}
func (r *resp) int() int {
	v, err := strconv.Atoi(r.word())
	if err != nil {
		panic(fmt.Sprintf("model answer: expected int in %v at %d", r.toks, r.p-1))
	}
	return v
}
func (r *resp) ints() []int {
	n := r.int()
	out := make([]int, n)
	for i := range out {
		out[i] = r.int()
	}
	return out
}

// intsK reads a list of n records of k integers each, flattened.
func (r *resp) intsK(k int) []int {
	n := r.int()
	out := make([]int, n*k)
	for i := range out {
		out[i] = r.int()
	}
	return out
}
func (r *resp) raw() string { return strings.Join(r.toks, " ") }

// callModel runs a batch of requests through loxmodel.
func callModel(reqs []*req) ([]*resp, error) {
	var in bytes.Buffer
	for _, r := range reqs {
		in.WriteString(r.String())
		in.WriteByte('\n')
	}
	res := run(verifDir, 30*time.Minute, in.Bytes(), loxmodel)
	if res.Code != 0 {
		return nil, fmt.Errorf("loxmodel failed (code %d): %s", res.Code, res.Err)
	}
	lines := strings.Split(strings.TrimRight(string(res.Out), "\n"), "\n")
	if len(lines) != len(reqs) {
		return nil, fmt.Errorf("loxmodel: %d answers for %d requests", len(lines), len(reqs))
	}
	out := make([]*resp, len(lines))
	for i, l := range lines {
		out[i] = &resp{toks: strings.Fields(l)}
	}
	return out, nil
}
