package main

import (
	"fmt"
	"strings"
)

// Harness-side grammar AST (sugar level); the ground truth from which the
// .lox text is printed.
type gTerm struct {
	kind int // 0 token, 1 rule, 2 @error, 3 @list
	name string
	card string // "", "?", "*", "+", "*!"
	elem *gTerm
	sep  *gTerm
	lit  bool // print a token by its literal alias
}

type gProd struct {
	terms []gTerm
	qual  string // "", "@left(n)", "@right(n)"
}

type gRule struct {
	name  string
	prods []gProd
}

type gSpec struct {
	tokens []string // token names; token i has literal string(rune('a'+i))
	rules  []gRule  // rules[0] is the start rule
}

func tokLit(i int) string { return string(rune('a' + i)) }

func (t gTerm) text(g *gSpec) string {
	var s string
	switch t.kind {
	case 0:
		s = t.name
		if t.lit {
			for i, n := range g.tokens {
				if n == t.name {
					s = "'" + tokLit(i) + "'"
				}
			}
		}
	case 1:
		s = t.name
	case 2:
		s = "@error"
	case 3:
		s = "@list(" + t.elem.text(g) + ", " + t.sep.text(g) + ")"
	}
	return s + t.card
}

func (g *gSpec) text() string {
	var sb strings.Builder
	sb.WriteString("@lexer\n")
	for i, n := range g.tokens {
		fmt.Fprintf(&sb, "%s = '%s'\n", n, tokLit(i))
	}
	sb.WriteString("@frag [ \\n]+ @discard\n")
	sb.WriteString("@parser\n")
	for i, r := range g.rules {
		if i == 0 {
			sb.WriteString("@start ")
		}
		sb.WriteString(r.name + " = ")
		for j, p := range r.prods {
			if j > 0 {
				sb.WriteString(" | ")
			}
			if len(p.terms) == 0 {
				sb.WriteString("@empty")
			}
			for k, t := range p.terms {
				if k > 0 {
					sb.WriteString(" ")
				}
				sb.WriteString(t.text(g))
			}
			if p.qual != "" {
				sb.WriteString(" " + p.qual)
			}
		}
		sb.WriteString("\n")
	}
	return sb.String()
}

type gramOpts struct {
	allowError bool
	maxRules   int
	maxTokens  int
}

func genSimpleTerm(r *rng, g *gSpec, ruleNames []string) gTerm {
	if r.chance(3, 5) || len(ruleNames) == 0 {
		return gTerm{kind: 0, name: pick(r, g.tokens), lit: r.chance(1, 3)}
	}
	return gTerm{kind: 1, name: pick(r, ruleNames)}
}

func genTerm(r *rng, g *gSpec, ruleNames []string) gTerm {
	t := genSimpleTerm(r, g, ruleNames)
	switch r.intn(12) {
	case 0:
		t.card = "?"
	case 1:
		t.card = "*"
	case 2:
		t.card = "+"
	case 3:
		if t.kind == 1 || r.chance(1, 3) {
			t.card = "*!"
		}
	case 4:
		e := genSimpleTerm(r, g, ruleNames)
		s := gTerm{kind: 0, name: pick(r, g.tokens)}
		t = gTerm{kind: 3, elem: &e, sep: &s}
		if r.chance(1, 3) {
			t.card = "?"
		}
	}
	return t
}

// genGrammar makes a random sugared grammar.  Most are built so that the
// alternatives of a rule start with different tokens (these are usually
// LALR(1)); some are unconstrained.
func genGrammar(r *rng, o gramOpts) *gSpec {
	g := &gSpec{}
	nt := 2 + r.intn(o.maxTokens-1)
	for i := 0; i < nt; i++ {
		g.tokens = append(g.tokens, "T"+strings.ToUpper(tokLit(i)))
	}
	nr := 1 + r.intn(o.maxRules)
	var names []string
	// rule names in both cases: lox sorts symbols by name in several places, and
	// upper-case rule names sort among / before the token names
	prefix := pick(r, []string{"r", "r", "R", "Zq", "A"})
	for i := 0; i < nr; i++ {
		names = append(names, fmt.Sprintf("%s%d", prefix, i))
	}
	llStyle := r.chance(3, 4)
	for i := 0; i < nr; i++ {
		rule := gRule{name: names[i]}
		np := 1 + r.intn(3)
		used := map[string]bool{}
		hasEmpty := false
		shape := r.intn(10)
		for j := 0; j < np; j++ {
			var p gProd
			switch {
			case shape == 0 && j == 0 && nr > 1:
				// left recursion: r = r T x | ...
				p.terms = []gTerm{{kind: 1, name: names[i]}, {kind: 0, name: pick(r, g.tokens)}}
				if r.chance(1, 2) {
					p.terms = append(p.terms, genSimpleTerm(r, g, names))
				}
			case shape == 1 && j == 0:
				// right recursion: r = T r | ...
				p.terms = []gTerm{{kind: 0, name: pick(r, g.tokens)}, {kind: 1, name: names[i]}}
			case shape == 3 && j == 0 && nr > 1:
				// a rule followed by a non-empty NULLABLE tail: r = r' T? | r' T* — the lookahead of r' must then
				// include what follows r as well (FIRST of a nullable suffix followed by the item's lookahead)
				other := names[(i+1+r.intn(nr-1))%nr]
				tail := gTerm{kind: 0, name: pick(r, g.tokens), card: pick(r, []string{"?", "*", "?"})}
				p.terms = []gTerm{{kind: 1, name: other}, tail}
				if r.chance(1, 3) {
					p.terms = append(p.terms, gTerm{kind: 0, name: pick(r, g.tokens), card: "?"})
				}
			case shape == 5 && j == 0 && nt >= 3:
				// two ADJACENT lists whose elements have the same Go type (tokens), then a closing token: the value
				// under the first element of the second list is a list of the same type
				a, b, cl := g.tokens[0], g.tokens[1], g.tokens[2]
				p.terms = []gTerm{{kind: 0, name: a, card: pick(r, []string{"+", "*", "+"})}, {kind: 0, name: b, card: pick(r, []string{"+", "+", "*"})}, {kind: 0, name: cl}}
				if r.chance(1, 3) {
					p.terms = append([]gTerm{{kind: 0, name: cl}}, p.terms...)
				}
				used[a], used[b], used[cl] = true, true, true
			case shape == 4 && j == 0 && i+1 < nr:
				// repetition of another rule: r = r'+ | r'* T
				other := names[i+1]
				p.terms = []gTerm{{kind: 1, name: other, card: pick(r, []string{"+", "*", "+"})}}
				if r.chance(1, 2) {
					p.terms = append(p.terms, gTerm{kind: 0, name: pick(r, g.tokens)})
				}
			case shape == 2 && j == 0 && nt >= 3:
				// bracketed, nested list: r = T0 @list(r, T1) T2 | ...
				e := gTerm{kind: 1, name: names[i]}
				sp := gTerm{kind: 0, name: g.tokens[1]}
				p.terms = []gTerm{{kind: 0, name: g.tokens[0]}, {kind: 3, elem: &e, sep: &sp}, {kind: 0, name: g.tokens[2]}}
				used[g.tokens[0]] = true
			default:
				n := r.intn(5)
				if n == 0 && hasEmpty {
					n = 1
				}
				if n == 0 {
					hasEmpty = true
				}
				for k := 0; k < n; k++ {
					if k == 0 && llStyle {
						// distinct leading token
						var cands []string
						for _, t := range g.tokens {
							if !used[t] {
								cands = append(cands, t)
							}
						}
						if len(cands) == 0 {
							break
						}
						t := pick(r, cands)
						used[t] = true
						p.terms = append(p.terms, gTerm{kind: 0, name: t, lit: r.chance(1, 3)})
						continue
					}
					p.terms = append(p.terms, genTerm(r, g, names))
				}
			}
			if o.allowError && r.chance(1, 6) {
				// put an @error term somewhere, usually followed by a token
				pos := r.intn(len(p.terms) + 1)
				e := gTerm{kind: 2}
				nt := append([]gTerm{}, p.terms[:pos]...)
				nt = append(nt, e)
				if r.chance(2, 3) {
					nt = append(nt, gTerm{kind: 0, name: pick(r, g.tokens)})
				}
				nt = append(nt, p.terms[pos:]...)
				p.terms = nt
			}
			rule.prods = append(rule.prods, p)
		}
		if o.allowError && r.chance(1, 6) {
			// an alternative that is @error alone (or @error+ / @error @error): right after it ERROR is an
			// acceptable lookahead again, so a lexer ERROR token can follow a recovery directly
			var p gProd
			switch r.intn(4) {
			case 0:
				p.terms = []gTerm{{kind: 2, card: "+"}}
			case 1:
				p.terms = []gTerm{{kind: 2}, {kind: 2}}
			default:
				p.terms = []gTerm{{kind: 2}}
			}
			rule.prods = append(rule.prods, p)
		}
		g.rules = append(g.rules, rule)
	}
	return g
}

// ---- sentences of the normalised grammar (as dumped by the hook) ----

type sampler struct {
	d     *jDump
	depth []int // minimal derivation height per rule; -1 = unproductive
	pmin  []int // per production
}

func newSampler(d *jDump) *sampler {
	s := &sampler{d: d, depth: make([]int, len(d.Rules)), pmin: make([]int, len(d.Prods))}
	for i := range s.depth {
		s.depth[i] = -1
	}
	for i := range s.pmin {
		s.pmin[i] = -1
	}
	for changed := true; changed; {
		changed = false
		for _, p := range d.Prods {
			h := 0
			ok := true
			for _, t := range p.Terms {
				if t.T {
					continue
				}
				if s.depth[t.I] < 0 {
					ok = false
					break
				}
				if s.depth[t.I] > h {
					h = s.depth[t.I]
				}
			}
			if !ok {
				continue
			}
			h++
			if s.pmin[p.Index] < 0 || h < s.pmin[p.Index] {
				s.pmin[p.Index] = h
				changed = true
			}
			if s.depth[p.Rule] < 0 || h < s.depth[p.Rule] {
				s.depth[p.Rule] = h
				changed = true
			}
		}
	}
	return s
}

func (s *sampler) productive() bool {
	return len(s.d.Prods) > 0 && s.pmin[0] >= 0
}

// derive expands rule ri; budget bounds the remaining depth.
func (s *sampler) derive(r *rng, ri int, budget int, out *[]int) {
	rule := s.d.Rules[ri]
	var cands []int
	for _, pi := range rule.Prods {
		if s.pmin[pi] >= 0 && s.pmin[pi] <= budget {
			cands = append(cands, pi)
		}
	}
	if len(cands) == 0 {
		// take the shallowest
		best := -1
		for _, pi := range rule.Prods {
			if s.pmin[pi] >= 0 && (best < 0 || s.pmin[pi] < s.pmin[best]) {
				best = pi
			}
		}
		if best < 0 {
			return
		}
		cands = []int{best}
	}
	p := s.d.Prods[pick(r, cands)]
	for _, t := range p.Terms {
		if t.T {
			*out = append(*out, t.I)
		} else {
			s.derive(r, t.I, budget-1, out)
		}
	}
}

func (s *sampler) sentence(r *rng, budget int) []int {
	var out []int
	start := s.d.Prods[0].Terms[0]
	s.derive(r, start.I, budget, &out)
	return out
}

// mutate makes a near-sentence.
func mutateTokens(r *rng, w []int, nterm int) []int {
	out := append([]int{}, w...)
	n := 1 + r.intn(2)
	for i := 0; i < n; i++ {
		switch k := r.intn(3); {
		case k == 0 && len(out) > 0:
			j := r.intn(len(out))
			out = append(out[:j], out[j+1:]...)
		case k == 1:
			j := r.intn(len(out) + 1)
			t := 2 + r.intn(nterm-2)
			out = append(out[:j], append([]int{t}, out[j:]...)...)
		default:
			if len(out) > 0 {
				out[r.intn(len(out))] = 2 + r.intn(nterm-2)
			}
		}
	}
	return out
}

// ---- an independent reading of the sugar (for C01): the documented meaning
// of ? * + *! @list as operations on languages, desugared here with fresh
// RIGHT-recursive helper rules (lox uses left-recursive ones) into a plain
// grammar for the Earley recogniser, and sampled directly from the sugared AST.

func plainGrammar(g *gSpec, termIndex map[string]int) *jDump {
	d := &jDump{}
	ruleIdx := map[string]int{}
	addRule := func(name string) int {
		if i, ok := ruleIdx[name]; ok {
			return i
		}
		i := len(d.Rules)
		ruleIdx[name] = i
		d.Rules = append(d.Rules, jRule{Index: i, Name: name})
		return i
	}
	addProd := func(rule int, terms []jTerm) {
		p := jProd{Index: len(d.Prods), Rule: rule, Terms: terms}
		d.Prods = append(d.Prods, p)
		d.Rules[rule].Prods = append(d.Rules[rule].Prods, p.Index)
	}
	sp := addRule("S'")
	addProd(sp, nil) // patched below
	for _, r := range g.rules {
		addRule(r.name)
	}
	fresh := 0
	var simple func(t gTerm) jTerm
	simple = func(t gTerm) jTerm {
		switch t.kind {
		case 0:
			return jTerm{T: true, I: termIndex[t.name]}
		case 2:
			return jTerm{T: true, I: 1}
		default:
			return jTerm{T: false, I: addRule(t.name)}
		}
	}
	var term func(t gTerm) jTerm
	term = func(t gTerm) jTerm {
		var base jTerm
		if t.kind == 3 {
			// @list(x, s) = x (s x)* : L -> x | x s L
			fresh++
			l := addRule(fmt.Sprintf("$list%d", fresh))
			x, s := simple(*t.elem), simple(*t.sep)
			addProd(l, []jTerm{x})
			addProd(l, []jTerm{x, s, {T: false, I: l}})
			base = jTerm{T: false, I: l}
			if t.card == "?" {
				fresh++
				o := addRule(fmt.Sprintf("$opt%d", fresh))
				addProd(o, []jTerm{base})
				addProd(o, nil)
				return jTerm{T: false, I: o}
			}
			return base
		}
		base = simple(t)
		switch t.card {
		case "?":
			fresh++
			o := addRule(fmt.Sprintf("$opt%d", fresh))
			addProd(o, []jTerm{base})
			addProd(o, nil)
			return jTerm{T: false, I: o}
		case "*", "*!":
			fresh++
			s := addRule(fmt.Sprintf("$star%d", fresh))
			addProd(s, nil)
			addProd(s, []jTerm{base, {T: false, I: s}})
			return jTerm{T: false, I: s}
		case "+":
			fresh++
			s := addRule(fmt.Sprintf("$plus%d", fresh))
			addProd(s, []jTerm{base})
			addProd(s, []jTerm{base, {T: false, I: s}})
			return jTerm{T: false, I: s}
		}
		return base
	}
	for _, r := range g.rules {
		ri := ruleIdx[r.name]
		for _, p := range r.prods {
			var ts []jTerm
			for _, t := range p.terms {
				ts = append(ts, term(t))
			}
			addProd(ri, ts)
		}
	}
	d.Prods[0].Terms = []jTerm{{T: false, I: ruleIdx[g.rules[0].name]}}
	return d
}

// sampleSugar derives a token sequence straight from the sugared AST.
func sampleSugar(r *rng, g *gSpec, termIndex map[string]int, budget int) ([]int, bool) {
	rules := map[string]*gRule{}
	for i := range g.rules {
		rules[g.rules[i].name] = &g.rules[i]
	}
	var out []int
	steps := 0
	var rule func(name string, depth int) bool
	var simple func(t gTerm, depth int) bool
	simple = func(t gTerm, depth int) bool {
		switch t.kind {
		case 0:
			out = append(out, termIndex[t.name])
			return true
		case 2:
			return false // @error: only the parser supplies it
		default:
			return rule(t.name, depth+1)
		}
	}
	rep := func(min int, depth int) int {
		if depth > budget {
			return min
		}
		return min + r.intn(3)
	}
	var term func(t gTerm, depth int) bool
	term = func(t gTerm, depth int) bool {
		if t.kind == 3 {
			if t.card == "?" && (depth > budget || r.chance(1, 3)) {
				return true
			}
			n := rep(1, depth)
			for i := 0; i < n; i++ {
				if i > 0 && !simple(*t.sep, depth) {
					return false
				}
				if !simple(*t.elem, depth) {
					return false
				}
			}
			return true
		}
		n := 1
		switch t.card {
		case "?":
			n = r.intn(2)
			if depth > budget {
				n = 0
			}
		case "*", "*!":
			n = rep(0, depth)
		case "+":
			n = rep(1, depth)
		}
		for i := 0; i < n; i++ {
			if !simple(t, depth) {
				return false
			}
		}
		return true
	}
	rule = func(name string, depth int) bool {
		steps++
		if steps > 400 || depth > budget+8 {
			return false
		}
		rl := rules[name]
		if rl == nil {
			return false
		}
		// prefer short productions when deep
		p := pick(r, rl.prods)
		if depth > budget {
			best := rl.prods[0]
			for _, q := range rl.prods {
				if len(q.terms) < len(best.terms) {
					best = q
				}
			}
			p = best
		}
		for _, t := range p.terms {
			if !term(t, depth) {
				return false
			}
		}
		return true
	}
	ok := rule(g.rules[0].name, 0)
	return out, ok && len(out) <= 60
}
