module verifharness

go 1.23.0
