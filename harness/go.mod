module verifharness

go 1.23.0

require golang.org/x/tools v0.33.0

require (
	golang.org/x/mod v0.24.0 // indirect
	golang.org/x/sync v0.14.0 // indirect
)
