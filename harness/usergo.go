package main

import (
	"fmt"
	"strings"
)

// genUserGo writes the user side of a generated parser package: the Token
// type, a parser struct, one action method per production of every
// user-written rule (building a generic tree and logging the call), optionally
// _onBounds, and a driver main that reads requests on stdin.
type userOpts struct {
	bounds bool
	pkg    string // "" = package main with the stdin driver; otherwise a library package exporting Handle
	nilres bool   // every action is declared to return `any` and every second one returns an untyped nil (values are then compared in projection only)
	shared bool   // productions of one rule with the same number of terms share ONE method (parameters of differing term types are `any`)
	typed  bool   // every user rule gets its own result type *N<rule> (defined as Node), so that casts are exercised with distinct types
}

func goTermType(d *jDump, t jTerm) string {
	if t.T {
		if t.I == 1 {
			return "Error"
		}
		return "Token"
	}
	r := d.Rules[t.I]
	switch r.Kind {
	case "not_generated":
		if d.anyres {
			return "any"
		}
		if d.typed {
			return fmt.Sprintf("*N%d", r.Index)
		}
		return "*Node"
	case "zero_or_one":
		return goTermType(d, d.Prods[r.Prods[0]].Terms[0])
	case "zero_or_more", "zero_or_more_f":
		return goTermType(d, d.Prods[r.Prods[0]].Terms[0])
	case "one_or_more", "one_or_more_f", "list":
		return "[]" + goTermType(d, d.Prods[r.Prods[1]].Terms[0])
	}
	return "any"
}

// prodClasses: lox binds one method to every production of a rule whose term
// types it accepts, so productions of one rule with the same parameter types
// must share a method; the class of a production is the smallest production
// index with the same rule and signature.
func prodClasses(d *jDump) []int {
	cls := make([]int, len(d.Prods))
	for i := range cls {
		cls[i] = i
	}
	for _, r := range d.Rules {
		if r.Kind != "not_generated" {
			continue
		}
		seen := map[string]int{}
		for _, pi := range r.Prods {
			var sig []string
			for _, t := range d.Prods[pi].Terms {
				sig = append(sig, goTermType(d, t))
			}
			k := strings.Join(sig, ",")
			if d.shared {
				// one interface-typed method per (rule, number of terms)
				k = fmt.Sprint(len(sig))
			}
			if c, ok := seen[k]; ok {
				cls[pi] = c
			} else {
				seen[k] = pi
			}
		}
	}
	return cls
}

func genUserGo(d *jDump, o userOpts) string {
	var sb strings.Builder
	prelude := userGoPrelude
	if o.pkg != "" {
		prelude = strings.Replace(prelude, "package main", "package "+o.pkg, 1)
		i, j := strings.Index(prelude, "//MAIN-BEGIN"), strings.Index(prelude, "//MAIN-END")
		prelude = prelude[:i] + "var _ = bufio.NewReader\nvar _ = os.Stdin\nvar _ = time.Second\n" + prelude[j+len("//MAIN-END"):]
	}
	sb.WriteString(prelude)
	d.shared = o.shared || o.nilres // with `any` parameters two methods of one rule and arity would both match
	d.anyres = o.nilres
	d.typed = o.typed // prodClasses / goTermType (also used when the tables are loaded into the model) follow it
	cls := prodClasses(d)
	namedSlices := map[string]string{}
	var namedOrder []string
	for _, r := range d.Rules {
		if r.Kind != "not_generated" {
			continue
		}
		for _, pi := range r.Prods {
			if cls[pi] != pi {
				continue
			}
			p := d.Prods[pi]
			var params, args []string
			for i, t := range p.Terms {
				ty := goTermType(d, t)
				if d.shared {
					// the method serves every production of its class: a parameter whose term type differs
					// between them is declared "any"
					for _, pj := range r.Prods {
						if cls[pj] == pi && goTermType(d, d.Prods[pj].Terms[i]) != ty {
							ty = "any"
							break
						}
					}
				}
				if o.typed && strings.HasPrefix(ty, "[]") && (pi+i)%2 == 0 {
					// assignable but not identical: a named slice type for a list term (the value must still arrive)
					nm, ok := namedSlices[ty]
					if !ok {
						nm = fmt.Sprintf("L%d", len(namedSlices))
						namedSlices[ty] = nm
						namedOrder = append(namedOrder, ty)
					}
					ty = nm
				}
				params = append(params, fmt.Sprintf("a%d %s", i, ty))
				args = append(args, fmt.Sprintf("a%d", i))
			}
			if o.nilres {
				ret := "n"
				if pi%2 == 1 {
					ret = "nil"
				}
				fmt.Fprintf(&sb, "func (p *P) on_%s__c%d(%s) any {\n\tn := &Node{Prod: %d, Args: []any{%s}}\n\tp.log = append(p.log, \"R%d=\"+ser(n))\n\treturn %s\n}\n\n",
					r.Name, pi, strings.Join(params, ", "), pi, strings.Join(args, ", "), pi, ret)
				continue
			}
			if o.typed {
				fmt.Fprintf(&sb, "func (p *P) on_%s__c%d(%s) *N%d {\n\tn := &Node{Prod: %d, Args: []any{%s}}\n\tp.log = append(p.log, \"R%d=\"+ser(n))\n\treturn (*N%d)(n)\n}\n\n",
					r.Name, pi, strings.Join(params, ", "), r.Index, pi, strings.Join(args, ", "), pi, r.Index)
				continue
			}
			fmt.Fprintf(&sb, "func (p *P) on_%s__c%d(%s) *Node {\n\tn := &Node{Prod: %d, Args: []any{%s}}\n\tp.log = append(p.log, \"R%d=\"+ser(n))\n\treturn n\n}\n\n",
				r.Name, pi, strings.Join(params, ", "), pi, strings.Join(args, ", "), pi)
		}
	}
	if o.typed {
		for _, r := range d.Rules {
			if r.Kind == "not_generated" {
				fmt.Fprintf(&sb, "type N%d Node\n\nfunc (n *N%d) Discard() bool { return (*Node)(n).Discard() }\n\n", r.Index, r.Index)
			}
		}
	}
	for _, ty := range namedOrder {
		fmt.Fprintf(&sb, "type %s %s\n\n", namedSlices[ty], ty)
	}
	if o.bounds {
		sb.WriteString("func (p *P) _onBounds(r any, b, e Token) {\n\tp.log = append(p.log, \"B=\"+ser(r)+\";\"+ser(b)+\";\"+ser(e))\n}\n")
	}
	return sb.String()
}

const userGoPrelude = `package main

import (
	"bufio"
	"encoding/hex"
	"fmt"
	gotoken "go/token"
	"os"
	"reflect"
	"strconv"
	"strings"
	"time"

	"github.com/dcaiafa/loxlex/simplelexer"
)

type Token = simplelexer.Token

type Node struct {
	Prod int
	Args []any
}

func (n *Node) Discard() bool { return n != nil && n.Prod%2 == 1 }

type P struct {
	lox
	log []string
}

func serTok(t Token) string {
	if t.Type == 0 && t.Pos == 0 {
		return "Z"
	}
	return "T(" + strconv.Itoa(t.Type) + "," + strconv.Itoa(int(t.Pos)-1) + ")"
}

func ser(v any) string {
	switch x := v.(type) {
	case nil:
		return "nil"
	case Token:
		return serTok(x)
	case Error:
		var e []string
		for _, k := range x.Expected {
			e = append(e, strconv.Itoa(k))
		}
		return "E(" + serTok(x.Token) + ",[" + strings.Join(e, " ") + "])"
	case *Node:
		if x == nil {
			return "Z"
		}
		parts := []string{strconv.Itoa(x.Prod)}
		for _, a := range x.Args {
			parts = append(parts, ser(a))
		}
		return "N(" + strings.Join(parts, ",") + ")"
	}
	rv := reflect.ValueOf(v)
	if rv.Kind() == reflect.Ptr && rv.Type().ConvertibleTo(reflect.TypeOf((*Node)(nil))) {
		return ser(rv.Convert(reflect.TypeOf((*Node)(nil))).Interface())
	}
	if rv.Kind() == reflect.Slice {
		if rv.Len() == 0 {
			return "Z"
		}
		var parts []string
		for i := 0; i < rv.Len(); i++ {
			parts = append(parts, ser(rv.Index(i).Interface()))
		}
		return "L(" + strings.Join(parts, ",") + ")"
	}
	return fmt.Sprintf("?%T", v)
}

// seqLexer hands the parser a fixed sequence of token types, then EOF for ever.
type seqLexer struct {
	toks  []int
	i     int
	reads int
}

func (l *seqLexer) ReadToken() (Token, int) {
	l.reads++
	if l.i >= len(l.toks) {
		return Token{Type: EOF, Pos: gotoken.Pos(len(l.toks) + 1)}, EOF
	}
	t := Token{Type: l.toks[l.i], Pos: gotoken.Pos(l.i + 1)}
	l.i++
	return t, t.Type
}

// logSM records every PushRune call of the generated state machine.
type logSM struct {
	sm  *_LexerStateMachine
	log *[]string
}

func (l logSM) PushRune(r rune) int {
	c := l.sm.PushRune(r)
	*l.log = append(*l.log, strconv.Itoa(int(r))+":"+strconv.Itoa(c))
	return c
}
func (l logSM) Token() int { return l.sm.Token() }
func (l logSM) Reset()     { l.sm.Reset() }

func doParseTokens(fields []string) string {
	var toks []int
	for _, f := range fields {
		n, _ := strconv.Atoi(f)
		toks = append(toks, n)
	}
	p := &P{}
	lx := &seqLexer{toks: toks}
	ok := p.parse(lx)
	res := "REJ"
	if ok {
		res = "ACC"
	}
	return res + "\t" + strconv.Itoa(lx.i) + "\t" + strings.Join(p.log, " ")
}

func doLex(hexInput string, limit int) string {
	input, _ := hex.DecodeString(hexInput)
	fset := gotoken.NewFileSet()
	file := fset.AddFile("in", -1, len(input))
	var pr []string
	lx := simplelexer.New(simplelexer.Config{
		StateMachine: logSM{sm: new(_LexerStateMachine), log: &pr},
		File:         file,
		Input:        input,
	})
	var toks []string
	status := "EOF"
	for n := 0; ; n++ {
		if n > limit {
			status = "LOOP"
			break
		}
		t, ty := lx.ReadToken()
		off := int(t.Pos) - file.Base()
		toks = append(toks, strconv.Itoa(ty)+":"+strconv.Itoa(off)+":"+strconv.Itoa(len(t.Str)))
		if ty == EOF {
			break
		}
	}
	return status + "\t" + strings.Join(toks, " ") + "\t" + strings.Join(pr, " ")
}

func doParseText(hexInput string) string {
	input, _ := hex.DecodeString(hexInput)
	fset := gotoken.NewFileSet()
	file := fset.AddFile("in", -1, len(input))
	lx := simplelexer.New(simplelexer.Config{
		StateMachine: new(_LexerStateMachine),
		File:         file,
		Input:        input,
	})
	p := &P{}
	ok := p.parse(lx)
	res := "REJ"
	if ok {
		res = "ACC"
	}
	return res + "\t" + strings.Join(p.log, " ")
}

// Handle answers one request line (see the harness for the protocol).
func Handle(line string) (res string) {
	fields := strings.Fields(line)
	if len(fields) == 0 {
		return "EMPTY"
	}
	defer func() {
		if e := recover(); e != nil {
			res = "PANIC\t" + strings.ReplaceAll(fmt.Sprint(e), "\n", " ")
		}
	}()
	switch fields[0] {
	case "P":
		return doParseTokens(fields[1:])
	case "L":
		h := ""
		if len(fields) > 1 {
			h = fields[1]
		}
		return doLex(h, 4*len(h)+16)
	case "S":
		var names []string
		for _, f := range fields[1:] {
			n, _ := strconv.Atoi(f)
			names = append(names, _TokenToString(n))
		}
		return strings.Join(names, " ")
	case "X":
		h := ""
		if len(fields) > 1 {
			h = fields[1]
		}
		return doParseText(h)
	}
	return "BADREQ"
}

//MAIN-BEGIN
func main() {
	in := bufio.NewScanner(os.Stdin)
	in.Buffer(make([]byte, 1<<20), 1<<26)
	out := bufio.NewWriter(os.Stdout)
	defer out.Flush()
	for in.Scan() {
		line := in.Text()
		done := make(chan string, 1)
		go func() { done <- Handle(line) }()
		select {
		case r := <-done:
			fmt.Fprintln(out, r)
		case <-time.After(5 * time.Second):
			fmt.Fprintln(out, "HANG")
			out.Flush()
			os.Exit(3)
		}
	}
}
//MAIN-END

`
