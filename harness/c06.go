package main

import (
	"fmt"
	"go/ast"
	"go/importer"
	"go/parser"
	"go/token"
	"go/types"
	"os"
	"path/filepath"
	"regexp"
	"sort"
	"strings"
)

func init() { checks["C06"] = checkC06 }

type zooType struct {
	typ      string   // the rule's Go type
	sentinel string   // expression of the value its actions return
	alts     []string // parameter types that accept it by assignability without being identical or interfaces
	ifaces   []string // interface parameter types it implements
}

const c06Decls = `
type Token struct {
	Type int
	ID   int
}

type Node struct{ ID int }

func (*Node) Mark() {}

type Val interface{ Mark() }

type Pt struct{ X, Y int }
type Ints []int
type Dict map[string]int
type Thunk func() int
type Box[T any] struct{ V T }

var chI = make(chan int)
var fnI = func() int { return 7 }
var sbI = &strings.Builder{}
var fn2I = func(a, b int) (s string, err error) { return "", nil }
var mapNI = map[string][]*Node{"k": {ndI}}
var ndI = &Node{ID: 7}
`

var zoo = []zooType{
	{"int", "41", nil, []string{"any"}},
	{"string", `"str"`, nil, []string{"any", "fmt.Stringer_NOT"}},
	{"*Node", "ndI", nil, []string{"any", "Val"}},
	{"Pt", "Pt{1, 2}", nil, []string{"any"}},
	{"[]int", "[]int{4, 5}", []string{"Ints"}, []string{"any"}},
	{"Ints", "Ints{6}", []string{"[]int"}, []string{"any"}},
	{"chan int", "chI", []string{"<-chan int", "chan<- int"}, []string{"any"}},
	{"map[string]int", `map[string]int{"k": 1}`, []string{"Dict"}, []string{"any"}},
	{"func() int", "fnI", []string{"Thunk"}, []string{"any"}},
	{"Box[int]", "Box[int]{V: 3}", nil, []string{"any"}},
	{"time.Duration", "time.Duration(42)", nil, []string{"any", "fmt.Stringer"}},
	{"sub.Num", "sub.Num(9)", nil, []string{"any", "fmt.Stringer"}},
	{"[]sub.Pair", "[]sub.Pair{{A: 1, B: 2}}", []string{"sub.Pairs"}, []string{"any"}},
	{"*strings.Builder", "sbI", nil, []string{"any", "io.Writer"}},
	// type strings with characters that are special to text templating / HTML escaping: < > & " '
	{"<-chan int", "(<-chan int)(chI)", nil, []string{"any"}},
	{"struct{ K string \x60json:\"k\"\x60 }", "struct{ K string \x60json:\"k\"\x60 }{K: \"v\"}", nil, []string{"any"}},
	{"func(a, b int) (s string, err error)", "fn2I", nil, []string{"any"}},
	{"map[string][]*Node", "mapNI", nil, []string{"any"}},
}

const c06Runtime = `
type P struct {
	lox
	bad []string
}

func same(a, b any) bool {
	va, vb := reflect.ValueOf(a), reflect.ValueOf(b)
	if !va.IsValid() || !vb.IsValid() {
		return va.IsValid() == vb.IsValid()
	}
	switch va.Kind() {
	case reflect.Func, reflect.Chan, reflect.Pointer, reflect.UnsafePointer:
		if vb.Kind() != va.Kind() {
			return false
		}
		return va.Pointer() == vb.Pointer()
	case reflect.Map:
		if vb.Kind() != reflect.Map || va.Len() != vb.Len() {
			return false
		}
		return va.Pointer() == vb.Pointer() || reflect.DeepEqual(va.Interface(), vb.Convert(va.Type()).Interface())
	case reflect.Slice:
		if vb.Kind() != reflect.Slice || va.Len() != vb.Len() || va.Len() == 0 {
			return false
		}
		for i := 0; i < va.Len(); i++ {
			if !same(va.Index(i).Interface(), vb.Index(i).Interface()) {
				return false
			}
		}
		return true
	}
	return reflect.DeepEqual(a, b)
}

func allSame(v any, elem any) bool {
	rv := reflect.ValueOf(v)
	if !rv.IsValid() || rv.Kind() != reflect.Slice || rv.Len() == 0 {
		return false
	}
	for i := 0; i < rv.Len(); i++ {
		if !same(rv.Index(i).Interface(), elem) {
			return false
		}
	}
	return true
}

func tokOK(v any, ty int) bool {
	t, ok := v.(Token)
	return ok && t.Type == ty
}

func toksOK(v any, ty int) bool {
	rv := reflect.ValueOf(v)
	if !rv.IsValid() || rv.Kind() != reflect.Slice || rv.Len() == 0 {
		return false
	}
	for i := 0; i < rv.Len(); i++ {
		if !tokOK(rv.Index(i).Interface(), ty) {
			return false
		}
	}
	return true
}

func (p *P) chk(where string, i int, ok bool, got any) {
	if !ok {
		p.bad = append(p.bad, fmt.Sprintf("%s: parameter %d holds %#v instead of the value produced for its term", where, i, got))
	}
}

type seqLexer struct {
	toks []int
	i    int
}

func (l *seqLexer) ReadToken() (Token, int) {
	if l.i >= len(l.toks) {
		return Token{Type: EOF, ID: l.i}, EOF
	}
	t := Token{Type: l.toks[l.i], ID: l.i}
	l.i++
	return t, t.Type
}

func main() {
	for _, arg := range os.Args[1:] {
		var toks []int
		for _, f := range strings.Split(arg, ",") {
			n, _ := strconv.Atoi(f)
			toks = append(toks, n)
		}
		p := &P{}
		ok := p.parse(&seqLexer{toks: toks})
		if !ok {
			fmt.Println("REJECTED", arg)
		}
		for _, b := range p.bad {
			fmt.Println("BAD", b)
		}
	}
	fmt.Println("DONE")
}
`

const c06Sub = `package sub

import "strconv"

type Num int

func (n Num) String() string { return strconv.Itoa(int(n)) }

type Pair struct{ A, B int }
type Pairs []Pair
`

type importerFunc func(path string) (*types.Package, error)

func (f importerFunc) Import(path string) (*types.Package, error) { return f(path) }

const c06Stub = `
type lox struct{}
type Error struct {
	Token    Token
	Expected []int
}
func (p *lox) parse(l interface{ ReadToken() (Token, int) }) bool { return false }
const EOF = 0
`

type c06Method struct {
	name    string
	params  []string
	results []string
	body    string
	chks    [][]string // per parameter: alternative checks (one per production the method serves)
	ret     string
	prod    int // the production it was written for (-1 = extra)
}

type c06Scenario struct {
	lox       string
	goSrc     string
	methods   []c06Method
	perturb   string
	ruleTypes map[string]zooType
}

func genC06(r *rng) *c06Scenario {
	sc := &c06Scenario{ruleTypes: map[string]zooType{}}
	plusOrStar := pick(r, []string{"+", "*"})
	wRule := r.chance(1, 3)
	// u: a rule that REUSES a generated helper created earlier under another name form: @list(x,TC)? after
	// @list(x,TC) (rule z), or x* after x+ / x+ after x* (rule s)
	uKind := r.intn(3)
	var sb strings.Builder
	sb.WriteString("@lexer\nTA = 'a'\nTB = 'b'\nTC = 'c'\nTD = 'd'\nTE = 'e'\nTF = 'f'\nTG = 'g'\nTH = 'h'\n@frag [ \\n]+ @discard\n@parser\n")
	fmt.Fprintf(&sb, "@start s = x%s y? TD\n         | TE z\n", plusOrStar)
	if wRule {
		sb.WriteString("         | TF w\n")
	}
	sb.WriteString("         | TG v\n")
	if uKind > 0 {
		sb.WriteString("         | TH u\n")
	}
	uText := ""
	switch uKind {
	case 1:
		uText = "u = TD @list(x, TC)? TD\n"
	case 2:
		uText = "u = TD x" + map[string]string{"+": "*", "*": "+"}[plusOrStar] + " TD\n"
	}
	uFirst := r.chance(1, 3)
	if uFirst {
		sb.WriteString(uText)
	}
	sb.WriteString("x = TA\n  | TB TB\ny = TC\nz = @list(x, TC)\nv = TD\n  | y\n")
	if wRule {
		sb.WriteString("w = TA+\n")
	}
	if !uFirst {
		sb.WriteString(uText)
	}
	sc.lox = sb.String()
	for _, rn := range []string{"s", "x", "y", "z", "w", "v", "u"} {
		sc.ruleTypes[rn] = pick(r, zoo)
	}
	sc.perturb = pick(r, []string{"", "", "", "", "missing", "ambiguous", "orphan", "retconflict", "tworesults", "unknownrule", "variadic"})
	return sc
}

var c06ErrRe = regexp.MustCompile(`^[^:]+:(\d+):\d+: (.*)$`)

func checkC06(c *checkCtx) {
	c.level = "proof"
	c.cov.Rule = "a grammar with sugar (x+ / x*, y?, @list) whose rules get Go types from a zoo (basic, pointer, struct, named and unnamed slices, maps, channels, functions, generic instantiation, imported types) and whose action methods are laid out exactly / through interfaces / through assignable-but-not-identical parameter types (named slice for []T, directional channel, named map/func types) / shared / missing / ambiguous / orphaned / conflicting returns / two results / unknown rule / variadic; go/types computes the identity/assignability/implements matrices, the Gallina mirror assign_actions gives the verdict and the culprits, lox must agree; on success the package must compile and every action parameter must hold the value produced for its term; non-trivial = at least one non-exact parameter or a perturbed layout"
	c.assume = []string{"go/types (identity, assignability, method sets) is an oracle computed by the harness and handed to the model as matrices; 'compiles' is tested (go build), not proved"}
	c.coqObligations()
	n := 40
	if c.thorough() {
		n = 400
	}
	ws := newWorkspace("c06")
	defer ws.close()
	var scs []*c06Scenario
	for i := 0; i < n; i++ {
		sc := genC06(c.rng)
		s := ws.add(sc.lox)
		s.tag = sc
		// a sub-package of the parser package (its import path extends the parser package's path)
		os.MkdirAll(filepath.Join(s.dir, "sub"), 0o755)
		os.WriteFile(filepath.Join(s.dir, "sub", "sub.go"), []byte(c06Sub), 0o644)
		scs = append(scs, sc)
	}
	if err := ws.dumpAll(); err != nil {
		c.addFinding(finding{Signature: "hook-failed", Desc: err.Error(), NoInput: true, Theorem: "loxverif dump", Replay: map[string]any{}})
		return
	}
	var reqs []*req
	type pending struct {
		s       *wsSpec
		sc      *c06Scenario
		methods []c06Method
	}
	var pend []*pending
	for _, s := range ws.specs {
		sc := s.tag.(*c06Scenario)
		d := s.dump
		if !d.OK || d.HasConflicts {
			c.addFinding(finding{Signature: "c06-grammar-refused", Desc: lastLines(d.Diag, 2), NoInput: true, Theorem: "harness grammar", Replay: map[string]any{"spec": s.loxText}})
			continue
		}
		// Go type of a term as lox derives it
		var termType func(t jTerm) (typ string, check func(arg string, i int) string)
		ruleZoo := func(ri int) zooType { return sc.ruleTypes[d.Rules[ri].Name] }
		termType = func(t jTerm) (string, func(string, int) string) {
			if t.T {
				if t.I == 1 {
					return "Error", func(a string, i int) string { return "true" }
				}
				return "Token", func(a string, i int) string { return fmt.Sprintf("tokOK(%s, %d)", a, t.I) }
			}
			rl := d.Rules[t.I]
			switch rl.Kind {
			case "not_generated":
				z := ruleZoo(t.I)
				return z.typ, func(a string, i int) string { return fmt.Sprintf("same(%s, sent_%s)", a, rl.Name) }
			case "zero_or_one":
				return termType(d.Prods[rl.Prods[0]].Terms[0])
			case "zero_or_more", "zero_or_more_f":
				return termType(d.Prods[rl.Prods[0]].Terms[0])
			default: // one_or_more, list
				el := d.Prods[rl.Prods[1]].Terms[0]
				et, _ := termType(el)
				if el.T {
					return "[]" + et, func(a string, i int) string { return fmt.Sprintf("toksOK(%s, %d)", a, el.I) }
				}
				return "[]" + et, func(a string, i int) string {
					return fmt.Sprintf("allSame(%s, sent_%s)", a, d.Rules[el.I].Name)
				}
			}
		}
		var decls strings.Builder
		var methods []c06Method
		nonExact := false
		namedSlices := map[string]string{}
		for _, rl := range d.Rules {
			if rl.Kind != "not_generated" {
				continue
			}
			z := ruleZoo(rl.Index)
			fmt.Fprintf(&decls, "var sent_%s %s = %s\n", rl.Name, z.typ, z.sentinel)
			for k, pi := range rl.Prods {
				p := d.Prods[pi]
				m := c06Method{name: fmt.Sprintf("on_%s__m%d", rl.Name, k), results: []string{z.typ}, prod: pi}
				var body strings.Builder
				for i, t := range p.Terms {
					tt, chk := termType(t)
					pt := tt
					// choose how the parameter accepts the term's type
					var zt *zooType
					if !t.T && d.Rules[t.I].Kind == "not_generated" {
						zz := ruleZoo(t.I)
						zt = &zz
					} else if !t.T && d.Rules[t.I].Kind == "zero_or_one" {
						inner := d.Prods[d.Rules[t.I].Prods[0]].Terms[0]
						if !inner.T {
							zz := ruleZoo(inner.I)
							zt = &zz
						}
					}
					switch c.rng.intn(5) {
					case 0:
						pt = "any"
						nonExact = true
					case 1:
						if zt != nil && len(zt.ifaces) > 0 {
							cand := pick(c.rng, zt.ifaces)
							if !strings.HasSuffix(cand, "_NOT") {
								pt = cand
								nonExact = true
							}
						}
					case 2:
						if zt != nil && len(zt.alts) > 0 {
							pt = pick(c.rng, zt.alts)
							nonExact = true
						} else if strings.HasPrefix(tt, "[]") {
							name, ok := namedSlices[tt]
							if !ok {
								name = fmt.Sprintf("SliceT%d", len(namedSlices))
								namedSlices[tt] = name
								fmt.Fprintf(&decls, "type %s %s\n", name, tt)
							}
							pt = name
							nonExact = true
						}
					}
					m.params = append(m.params, pt)
					m.chks = append(m.chks, []string{chk(fmt.Sprintf("a%d", i), i)})
				}
				_ = body
				m.ret = "sent_" + rl.Name
				methods = append(methods, m)
			}
		}
		// rule v = TD | y : ONE method with an interface parameter serves both productions,
		// whose terms have different Go types (Token and y's type)
		var keep []c06Method
		for _, m := range methods {
			if !strings.HasPrefix(m.name, "on_v__") {
				keep = append(keep, m)
			}
		}
		keep = append(keep, c06Method{name: "on_v__shared", params: []string{"any"}, results: []string{sc.ruleTypes["v"].typ}, prod: -1,
			body: "\tp.chk(\"on_v__shared\", 0, tokOK(a0, 5) || same(a0, sent_y), a0)\n\treturn sent_v\n"})
		methods = keep
		// merge methods of one rule with identical parameter lists (lox would call them ambiguous otherwise)
		var merged []c06Method
		for _, m := range methods {
			dup := false
			for k := range merged {
				o := &merged[k]
				if strings.HasPrefix(o.name, strings.SplitN(m.name, "__", 2)[0]+"__") && strings.Join(o.params, ",") == strings.Join(m.params, ",") && o.chks != nil && m.chks != nil {
					dup = true
					for i := range o.chks {
						o.chks[i] = append(o.chks[i], m.chks[i]...)
					}
				}
			}
			if !dup {
				merged = append(merged, m)
			}
		}
		methods = merged
		for k := range methods {
			m := &methods[k]
			if m.chks == nil {
				continue
			}
			var body strings.Builder
			for i, alts := range m.chks {
				fmt.Fprintf(&body, "\tp.chk(%q, %d, %s, a%d)\n", m.name, i, strings.Join(alts, " || "), i)
			}
			fmt.Fprintf(&body, "\treturn %s\n", m.ret)
			m.body = body.String()
		}
		// perturbation
		switch sc.perturb {
		case "missing":
			methods = methods[:len(methods)-1]
		case "ambiguous":
			m0 := methods[0]
			m := c06Method{name: m0.name + "b", results: m0.results, prod: -1, body: "\treturn sent_" + strings.TrimPrefix(strings.SplitN(m0.name, "__", 2)[0], "on_") + "\n"}
			for range m0.params {
				m.params = append(m.params, "any")
			}
			methods = append(methods, m)
		case "orphan":
			methods = append(methods, c06Method{name: "on_x__zzz", params: []string{"int", "int", "int", "int"}, results: []string{sc.ruleTypes["x"].typ}, prod: -1, body: "\treturn sent_x\n"})
		case "retconflict":
			methods = append(methods, c06Method{name: "on_x__other", params: []string{"Pt", "Pt", "Pt"}, results: []string{"float64"}, prod: -1, body: "\treturn 0\n"})
		case "tworesults":
			methods = append(methods, c06Method{name: "on_y__two", params: []string{"Token"}, results: []string{sc.ruleTypes["y"].typ, "error"}, prod: -1, body: "\treturn sent_y, nil\n"})
		case "unknownrule":
			methods = append(methods, c06Method{name: "on_nosuch", params: []string{"Token"}, results: []string{"int"}, prod: -1, body: "\treturn 0\n"})
		case "variadic":
			for i := range methods {
				if strings.HasPrefix(methods[i].name, "on_w__") {
					methods[i].params = []string{"...Token"}
					methods[i].body = "\tp.chk(\"on_w\", 0, toksOK(a0, 2), a0)\n\treturn sent_w\n"
				}
			}
		}
		var src strings.Builder
		src.WriteString("package main\n\nimport (\n\t\"fmt\"\n\t\"io\"\n\t\"os\"\n\t\"reflect\"\n\t\"strconv\"\n\t\"strings\"\n\t\"time\"\n\n\t\"ws/" + s.name + "/sub\"\n)\n\nvar _ io.Writer = sbI\nvar _ = time.Second\nvar _ = sub.Num(0)\n")
		src.WriteString(c06Decls)
		src.WriteString(decls.String())
		src.WriteString(c06Runtime)
		for _, m := range methods {
			var ps []string
			for i, t := range m.params {
				ps = append(ps, fmt.Sprintf("a%d %s", i, t))
			}
			res := m.results[0]
			if len(m.results) > 1 {
				res = "(" + strings.Join(m.results, ", ") + ")"
			}
			fmt.Fprintf(&src, "func (p *P) %s(%s) %s {\n%s}\n\n", m.name, strings.Join(ps, ", "), res, m.body)
		}
		sc.goSrc = src.String()
		sc.methods = methods
		s.goText = sc.goSrc
		_ = nonExact
		// --- oracle with go/types ---
		fset := token.NewFileSet()
		f1, err1 := parser.ParseFile(fset, "user.go", sc.goSrc, 0)
		f2, err2 := parser.ParseFile(fset, "stub.go", "package main\n"+c06Stub, 0)
		if err1 != nil || err2 != nil {
			c.addFinding(finding{Signature: "c06-harness-source-unparsable", Desc: fmt.Sprint(err1, err2), NoInput: true, Theorem: "harness", Replay: map[string]any{"go": sc.goSrc}})
			continue
		}
		srcImp := importer.ForCompiler(fset, "source", nil)
		subPath := "ws/" + s.name + "/sub"
		conf := types.Config{Error: func(error) {}, Importer: importerFunc(func(path string) (*types.Package, error) {
			if path == subPath {
				fs, err := parser.ParseFile(fset, "sub.go", c06Sub, 0)
				if err != nil {
					return nil, err
				}
				sc2 := types.Config{Importer: srcImp, Error: func(error) {}}
				return sc2.Check(subPath, fset, []*ast.File{fs}, nil)
			}
			return srcImp.Import(path)
		})}
		pkg, _ := conf.Check("main", fset, []*ast.File{f1, f2}, nil)
		scope := pkg.Scope()
		tokT := scope.Lookup("Token").Type()
		errT := scope.Lookup("Error").Type()
		pObj := scope.Lookup("P").Type().(*types.Named)
		var univ []types.Type
		idOf := func(t types.Type) int {
			for i, u := range univ {
				if types.Identical(u, t) {
					return i
				}
			}
			univ = append(univ, t)
			return len(univ) - 1
		}
		idOf(tokT)
		idOf(errT)
		type mrec struct {
			name            string
			params, results []int
		}
		var mrecs []mrec
		for i := 0; i < pObj.NumMethods(); i++ {
			fn := pObj.Method(i)
			if !strings.HasPrefix(fn.Name(), "on_") {
				continue
			}
			sig := fn.Type().(*types.Signature)
			mr := mrec{name: fn.Name()}
			for k := 0; k < sig.Params().Len(); k++ {
				mr.params = append(mr.params, idOf(sig.Params().At(k).Type()))
			}
			for k := 0; k < sig.Results().Len(); k++ {
				mr.results = append(mr.results, idOf(sig.Results().At(k).Type()))
			}
			mrecs = append(mrecs, mr)
		}
		base := len(univ)
		for i := 0; i < base; i++ {
			idOf(types.NewSlice(univ[i]))
		}
		nT := len(univ)
		q := newReq("binding").i(nT)
		for a := 0; a < nT; a++ {
			for b := 0; b < nT; b++ {
				q.b(types.Identical(univ[a], univ[b]))
			}
		}
		for a := 0; a < nT; a++ {
			for b := 0; b < nT; b++ {
				q.b(types.AssignableTo(univ[a], univ[b]))
			}
		}
		for a := 0; a < nT; a++ {
			sl := nT
			for b := 0; b < nT; b++ {
				if s2, ok := univ[b].(*types.Slice); ok && types.Identical(s2.Elem(), univ[a]) {
					sl = b
				}
			}
			q.i(sl)
		}
		for a := 0; a < nT; a++ {
			q.b(types.IsInterface(univ[a]))
		}
		for a := 0; a < nT; a++ {
			for b := 0; b < nT; b++ {
				ok := false
				if it, isI := univ[b].Underlying().(*types.Interface); isI {
					ok = types.Implements(univ[a], it)
				}
				q.b(ok)
			}
		}
		q.i(0).i(1)
		kcode := map[string]int{"not_generated": 0, "sprime": 1, "zero_or_more": 2, "zero_or_more_f": 3, "one_or_more": 4, "one_or_more_f": 5, "zero_or_one": 6, "list": 7}
		q.i(len(d.Rules))
		for _, rl := range d.Rules {
			q.sb.WriteString(" " + hx(rl.Name))
			q.i(kcode[rl.Kind]).ints(rl.Prods)
		}
		q.i(len(d.Prods))
		for _, p := range d.Prods {
			q.i(p.Rule).i(len(p.Terms))
			for _, t := range p.Terms {
				q.b(t.T).i(t.I)
			}
		}
		q.i(len(mrecs))
		for i, m := range mrecs {
			q.i(i)
			q.sb.WriteString(" " + hx(m.name))
			q.ints(m.params).ints(m.results)
		}
		reqs = append(reqs, q)
		pend = append(pend, &pending{s: s, sc: sc, methods: methods})
		_ = mrecs
		s.files = map[string]string{}
		for i, m := range mrecs {
			s.files[fmt.Sprint(i)] = m.name
		}
	}
	ans, err := callModel(reqs)
	if err != nil {
		c.addFinding(finding{Signature: "model-failed", Desc: err.Error(), NoInput: true, Theorem: "loxmodel", Replay: map[string]any{}})
		return
	}
	ws.genAll()
	ws.buildAll()
	for i, pd := range pend {
		s, sc := pd.s, pd.sc
		d := s.dump
		a := ans[i]
		verdict := a.word()
		c.note(s.loxText+sc.goSrc, sc.perturb != "" || strings.Contains(sc.goSrc, " any"))
		if len(c.cov.Samples) < 3 && i%9 == 4 {
			c.sample(map[string]any{"grammar": sc.lox, "perturbation": sc.perturb, "model_verdict": verdict, "lox_exit": s.loxCode, "lox_output": lastLines(s.loxOut, 3)})
		}
		bad := func(sig, desc string) {
			c.addFinding(finding{Signature: sig, Desc: desc, Theorem: "correspondence AssignActions vs Gen/Binding.assign_actions",
				Replay: map[string]any{"spec": sc.lox, "user_go": sc.goSrc, "perturbation": sc.perturb, "lox_output": s.loxOut, "model": a.raw()}})
		}
		switch verdict {
		case "ok":
			if s.loxCode != 0 {
				bad("binding-verdict-differs", "lox rejects a package whose methods match every production exactly once: "+lastLines(s.loxOut, 3))
				continue
			}
			if !s.built {
				c.addFinding(finding{Signature: "accepted-package-does-not-compile:" + sc.perturb,
					Desc:   "lox succeeded but the generated files do not compile with the package: " + lastLines(s.buildErr, 3),
					Replay: map[string]any{"spec": sc.lox, "user_go": sc.goSrc, "errors": s.buildErr}})
				continue
			}
			// run: sentences exercising every production
			// TA=2 TB=3 TC=4 TD=5 TE=6
			args := []string{"2,3,3,4,5", "6,2,4,3,3", "8,5", "8,4"}
			if strings.Contains(sc.lox, "TF w") {
				args = append(args, "7,2,2")
			}
			if strings.Contains(sc.lox, "u = TD @list") {
				args = append(args, "9,5,2,4,3,3,5") // (an absent optional legitimately delivers the zero value: not probed)
			} else if strings.Contains(sc.lox, "u = TD x+") {
				args = append(args, "9,5,2,3,3,5")
			} else if strings.Contains(sc.lox, "u = TD x*") {
				args = append(args, "9,5,2,3,3,5")
			}
			r := run(filepath.Dir(s.bin), 0+60e9, nil, s.bin, args...)
			out := string(r.Out)
			if strings.Contains(out, "BAD") || strings.Contains(out, "REJECTED") || !strings.Contains(out, "DONE") {
				first := ""
				for _, l := range strings.Split(out+string(r.Err), "\n") {
					if strings.HasPrefix(l, "BAD") || strings.HasPrefix(l, "REJECTED") || strings.HasPrefix(l, "panic") {
						first = l
						break
					}
				}
				c.addFinding(finding{Signature: "action-parameter-does-not-hold-term-value",
					Desc:   "at run time an action did not receive the value produced for its term: " + first,
					Replay: map[string]any{"spec": sc.lox, "user_go": sc.goSrc, "args": args, "output": lastLines(out, 10)}})
			}
		case "err":
			nd := a.int()
			var want []string
			for k := 0; k < nd; k++ {
				kind, cul := a.int(), a.int()
				name := fmt.Sprint(cul)
				switch kind {
				case 0, 1, 2, 6:
					name = s.files[fmt.Sprint(cul)]
				case 3:
					name = d.Rules[cul].Name
				case 4, 5:
					name = fmt.Sprintf("line%d", d.Prods[cul].Line)
				}
				want = append(want, fmt.Sprintf("%d:%s", kind, name))
			}
			if s.loxCode == 0 {
				bad("binding-verdict-differs", fmt.Sprintf("lox accepts a package that the binding rules refuse (%v)", want))
				continue
			}
			var got []string
			for _, l := range strings.Split(s.loxOut, "\n") {
				m := c06ErrRe.FindStringSubmatch(strings.TrimSpace(l))
				if m == nil {
					continue
				}
				msg := m[2]
				switch {
				case strings.Contains(msg, "action method must return a single value"):
					got = append(got, "0:"+strings.SplitN(msg, ":", 2)[0])
				case strings.Contains(msg, "action return type conflict"):
					got = append(got, "1:"+strings.Fields(strings.SplitN(msg, ": ", 2)[1])[0])
				case strings.Contains(msg, "no rule named"):
					got = append(got, "2:"+strings.TrimSuffix(strings.Fields(msg)[2], ":"))
				case strings.Contains(msg, "rule missing action method"):
					got = append(got, "3:"+strings.TrimSpace(strings.SplitN(msg, ": ", 2)[1]))
				case strings.Contains(msg, "production has no matching action method"):
					got = append(got, "4:line"+m[1])
				case strings.Contains(msg, "multiple action methods matching production"):
					got = append(got, "5:line"+m[1])
				case strings.Contains(msg, "could not match action method"):
					got = append(got, "6:"+strings.Fields(msg)[5])
				}
			}
			sort.Strings(got)
			sort.Strings(want)
			if strings.Join(got, " ") != strings.Join(want, " ") {
				bad("binding-diagnostics-differ", fmt.Sprintf("lox reports %v, the mirror %v (kind:culprit; 0 result count, 1 return conflict, 2 no such rule, 3 rule missing method, 4 no match, 5 multiple matches, 6 unassigned)", got, want))
			}
		default:
			bad("binding-model-"+verdict, "the model answered "+a.raw())
		}
	}
	c.cov.Programs = len(pend)
	_ = os.Stat
}
