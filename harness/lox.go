package main

import (
	"bufio"
	"bytes"
	"encoding/json"
	"fmt"
	"time"
)

// The JSON dump produced by the hook binary (cmd/loxverif in /repo, tag verif).
type jTerm struct {
	T bool `json:"t"`
	I int  `json:"i"`
}
type jProd struct {
	Index int     `json:"index"`
	Rule  int     `json:"rule"`
	Terms []jTerm `json:"terms"`
	Prec  int     `json:"prec"`
	Assoc int     `json:"assoc"`
	Line  int     `json:"line"`
}
type jRule struct {
	Index int    `json:"index"`
	Name  string `json:"name"`
	Prods []int  `json:"prods"`
	Kind  string `json:"kind"`
	First []int  `json:"first"`
}
type jTerminal struct {
	Index int    `json:"index"`
	Name  string `json:"name"`
	Alias string `json:"alias"`
}
type jAct struct {
	Type  int   `json:"type"`
	Shift int   `json:"shift"`
	Prods []int `json:"prods"`
}
type jActRow struct {
	Term int    `json:"term"`
	Acts []jAct `json:"acts"`
}
type jTrans struct {
	Sym jTerm `json:"sym"`
	To  int   `json:"to"`
}
type jState struct {
	Index   int       `json:"index"`
	Items   [][3]int  `json:"items"`
	Trans   []jTrans  `json:"trans"`
	Actions []jActRow `json:"actions"`
}
type jLexAct struct {
	Type int    `json:"type"`
	Term int    `json:"term"`
	Mode string `json:"mode"`
}
type jNFAEdge struct {
	Eps bool  `json:"eps"`
	B   int   `json:"b"`
	E   int   `json:"e"`
	To  []int `json:"to"`
}
type jNFAState struct {
	ID      int        `json:"id"`
	Accept  bool       `json:"accept"`
	NG      bool       `json:"ng"`
	Rule    int        `json:"rule"`
	HasActs bool       `json:"has_acts"`
	Acts    []jLexAct  `json:"acts"`
	Pos     int        `json:"pos"`
	File    string     `json:"file"`
	Edges   []jNFAEdge `json:"edges"`
}
type jDFAState struct {
	ID      int       `json:"id"`
	Accept  bool      `json:"accept"`
	NG      bool      `json:"ng"`
	NFA     []int     `json:"nfa"`
	Trans   [][3]int  `json:"trans"`
	HasActs bool      `json:"has_acts"`
	Acts    []jLexAct `json:"acts"`
}
type jMode struct {
	Name     string      `json:"name"`
	Index    int         `json:"index"`
	StartEps []int       `json:"start_eps"`
	NFA      []jNFAState `json:"nfa"`
	DFA      []jDFAState `json:"dfa"`
}
type jDump struct {
	OK           bool        `json:"ok"`
	Stage        string      `json:"stage"`
	Diag         string      `json:"diag"`
	Terminals    []jTerminal `json:"terminals"`
	Rules        []jRule     `json:"rules"`
	Prods        []jProd     `json:"prods"`
	HasConflicts bool        `json:"has_conflicts"`
	States       []jState    `json:"states"`
	Modes        []jMode     `json:"modes"`
	anyres       bool        // harness only: actions return `any`, some of them nil (usergo.go)
	shared       bool        // harness only: one method per (rule, arity), see usergo.go
	typed        bool        // harness only: the user code gives every rule its own result type (usergo.go)
}

// dumpDirs asks the hook binary for the dump of each directory.
func dumpDirs(dirs []string) ([]*jDump, error) { return dumpDirsT(dirs, 8*time.Minute) }

func dumpDirsT(dirs []string, limit time.Duration) ([]*jDump, error) {
	args := append([]string{"dump"}, dirs...)
	r := run(verifDir, limit, nil, loxverif, args...)
	if r.Code != 0 {
		return nil, fmt.Errorf("loxverif dump failed (code %d): %s", r.Code, lastLines(string(r.Err), 5))
	}
	var out []*jDump
	sc := bufio.NewScanner(bytes.NewReader(r.Out))
	sc.Buffer(make([]byte, 1<<20), 1<<30)
	for sc.Scan() {
		if len(bytes.TrimSpace(sc.Bytes())) == 0 {
			continue
		}
		d := &jDump{}
		if err := json.Unmarshal(sc.Bytes(), d); err != nil {
			return nil, fmt.Errorf("loxverif dump: bad JSON: %v", err)
		}
		out = append(out, d)
	}
	if len(out) != len(dirs) {
		return nil, fmt.Errorf("loxverif dump: %d answers for %d directories", len(out), len(dirs))
	}
	return out, nil
}

// hookJSON streams requests to a loxverif sub-command and decodes one answer per request.
func hookJSON[Q any, A any](sub string, reqs []Q) ([]A, error) {
	var in bytes.Buffer
	enc := json.NewEncoder(&in)
	for _, q := range reqs {
		enc.Encode(q)
	}
	r := run(verifDir, 8*time.Minute, in.Bytes(), loxverif, sub)
	if r.Code != 0 {
		return nil, fmt.Errorf("loxverif %s failed (code %d): %s", sub, r.Code, lastLines(string(r.Err), 5))
	}
	dec := json.NewDecoder(bytes.NewReader(r.Out))
	out := make([]A, 0, len(reqs))
	for dec.More() {
		var a A
		if err := dec.Decode(&a); err != nil {
			return nil, err
		}
		out = append(out, a)
	}
	if len(out) != len(reqs) {
		return nil, fmt.Errorf("loxverif %s: %d answers for %d requests", sub, len(out), len(reqs))
	}
	return out, nil
}
