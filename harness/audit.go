package main

import (
	"fmt"
	"go/ast"
	"go/token"
	"go/types"
	"sort"
	"strings"

	"golang.org/x/tools/go/packages"
)

// mapRangeSites lists every `for ... range m` over a map-typed expression in
// the non-test Go code of /repo (function + expression), with go/types.
type rangeSite struct {
	File string `json:"file"`
	Func string `json:"func"`
	Expr string `json:"expr"`
}

func loadRepoPackages() ([]*packages.Package, error) {
	cfg := &packages.Config{
		Mode: packages.NeedName | packages.NeedFiles | packages.NeedCompiledGoFiles | packages.NeedSyntax | packages.NeedTypes | packages.NeedTypesInfo | packages.NeedImports,
		Dir:  repoDir,
		Env:  goEnv(),
	}
	pkgs, err := packages.Load(cfg, "./cmd/lox/...", "./internal/...")
	if err != nil {
		return nil, err
	}
	for _, p := range pkgs {
		if len(p.Errors) > 0 {
			return nil, fmt.Errorf("package %s: %v", p.PkgPath, p.Errors[0])
		}
	}
	return pkgs, nil
}

func mapRangeSites() ([]rangeSite, error) {
	pkgs, err := loadRepoPackages()
	if err != nil {
		return nil, err
	}
	var out []rangeSite
	for _, p := range pkgs {
		for i, f := range p.Syntax {
			fname := p.Fset.Position(f.Pos()).Filename
			_ = i
			if strings.HasSuffix(fname, "_test.go") || strings.Contains(fname, "verif_export") || strings.Contains(fname, "cmd/loxverif") {
				continue
			}
			rel := strings.TrimPrefix(fname, repoDir+"/")
			for _, decl := range f.Decls {
				fd, ok := decl.(*ast.FuncDecl)
				if !ok || fd.Body == nil {
					continue
				}
				name := fd.Name.Name
				if fd.Recv != nil && len(fd.Recv.List) > 0 {
					name = types.ExprString(fd.Recv.List[0].Type) + "." + name
				}
				ast.Inspect(fd.Body, func(n ast.Node) bool {
					rs, ok := n.(*ast.RangeStmt)
					if !ok {
						return true
					}
					tv, ok := p.TypesInfo.Types[rs.X]
					if !ok {
						return true
					}
					if _, isMap := tv.Type.Underlying().(*types.Map); isMap {
						out = append(out, rangeSite{File: rel, Func: name, Expr: types.ExprString(rs.X)})
					}
					return true
				})
			}
		}
	}
	sort.Slice(out, func(i, j int) bool {
		if out[i].File != out[j].File {
			return out[i].File < out[j].File
		}
		if out[i].Func != out[j].Func {
			return out[i].Func < out[j].Func
		}
		return out[i].Expr < out[j].Expr
	})
	return out, nil
}

var _ = token.NoPos
