package main

// A plain Earley recogniser over the normalised grammar of a dump; used only
// in the search for a concrete failing input (never as the deciding oracle).
type earleyItem struct{ prod, dot, origin int }

func earleyAccepts(d *jDump, w []int) bool {
	_, ok := earleyRun(d, w, false)
	return ok
}

// earleyViable returns the index of the first token at which w stops being a
// prefix of a sentence (len(w) if w itself is a viable prefix) and whether w is
// a sentence; only productive rules are predicted, so "item set non-empty"
// means "prefix of a sentence".
func earleyViable(d *jDump, w []int) (int, bool) { return earleyRun(d, w, true) }

func earleyRun(d *jDump, w []int, productiveOnly bool) (int, bool) {
	n := len(w)
	sets := make([]map[earleyItem]bool, n+1)
	order := make([][]earleyItem, n+1)
	for i := range sets {
		sets[i] = map[earleyItem]bool{}
	}
	add := func(i int, it earleyItem) {
		if !sets[i][it] {
			sets[i][it] = true
			order[i] = append(order[i], it)
		}
	}
	// nullable rules
	nullable := make([]bool, len(d.Rules))
	for changed := true; changed; {
		changed = false
		for _, p := range d.Prods {
			if nullable[p.Rule] {
				continue
			}
			all := true
			for _, t := range p.Terms {
				if t.T || !nullable[t.I] {
					all = false
					break
				}
			}
			if all {
				nullable[p.Rule] = true
				changed = true
			}
		}
	}
	okProd := make([]bool, len(d.Prods))
	for i := range okProd {
		okProd[i] = true
	}
	if productiveOnly {
		sm := newSampler(d)
		for i := range okProd {
			okProd[i] = sm.pmin[i] >= 0
		}
	}
	if !okProd[0] {
		return 0, false
	}
	add(0, earleyItem{0, 0, 0})
	for i := 0; i <= n; i++ {
		if len(order[i]) == 0 {
			return i - 1, false
		}
		for k := 0; k < len(order[i]); k++ {
			it := order[i][k]
			p := d.Prods[it.prod]
			if it.dot < len(p.Terms) {
				t := p.Terms[it.dot]
				if t.T {
					if i < n && w[i] == t.I {
						add(i+1, earleyItem{it.prod, it.dot + 1, it.origin})
					}
				} else {
					for _, q := range d.Rules[t.I].Prods {
						if okProd[q] {
							add(i, earleyItem{q, 0, i})
						}
					}
					if nullable[t.I] {
						add(i, earleyItem{it.prod, it.dot + 1, it.origin})
					}
				}
			} else {
				for _, jt := range order[it.origin] {
					q := d.Prods[jt.prod]
					if jt.dot < len(q.Terms) && !q.Terms[jt.dot].T && q.Terms[jt.dot].I == p.Rule {
						add(i, earleyItem{jt.prod, jt.dot + 1, jt.origin})
					}
				}
			}
		}
	}
	return n, sets[n][earleyItem{0, len(d.Prods[0].Terms), 0}]
}
