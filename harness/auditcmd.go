package main

import (
	"encoding/json"
	"fmt"
	"os"
)

func init() {
	if len(os.Args) >= 2 && os.Args[1] == "audit-sites" {
		sites, err := mapRangeSites()
		if err != nil {
			fmt.Println("error:", err)
			os.Exit(1)
		}
		b, _ := json.MarshalIndent(sites, "", " ")
		fmt.Println(string(b))
		os.Exit(0)
	}
}
