package main

import (
	"fmt"
	"sort"
	"strings"
)

func init() {
	checks["C04"] = checkC04
}

// genPrecGrammar: an expression rule with qualified binary operators plus
// random other rules, to exercise conflict resolution.
func genPrecGrammar(r *rng) *gSpec {
	g := genGrammar(r, gramOpts{maxRules: 4, maxTokens: 5})
	nops := 1 + r.intn(3)
	e := gRule{name: "ex"}
	for i := 0; i < nops && i < len(g.tokens)-1; i++ {
		q := ""
		switch r.intn(4) {
		case 0, 1:
			q = fmt.Sprintf("@left(%d)", 1+r.intn(3))
		case 2:
			q = fmt.Sprintf("@right(%d)", 1+r.intn(3))
		}
		e.prods = append(e.prods, gProd{terms: []gTerm{{kind: 1, name: "ex"}, {kind: 0, name: g.tokens[i]}, {kind: 1, name: "ex"}}, qual: q})
	}
	if r.chance(1, 3) {
		// unary prefix operator with a qualifier
		e.prods = append(e.prods, gProd{terms: []gTerm{{kind: 0, name: g.tokens[0]}, {kind: 1, name: "ex"}}, qual: fmt.Sprintf("@right(%d)", 1+r.intn(4))})
	}
	e.prods = append(e.prods, gProd{terms: []gTerm{{kind: 0, name: g.tokens[len(g.tokens)-1]}}})
	// shift actions that belong to several productions: a second production (of the same
	// rule with another level, or of another rule) that starts like a binary operator production
	switch r.intn(4) {
	case 0:
		e.prods = append(e.prods, gProd{terms: []gTerm{{kind: 1, name: "ex"}, {kind: 0, name: g.tokens[0]}, {kind: 0, name: g.tokens[0]}, {kind: 1, name: "ex"}},
			qual: fmt.Sprintf("@left(%d)", 1+r.intn(3))})
	case 1:
		e.prods = append(e.prods, gProd{terms: []gTerm{{kind: 1, name: "ey"}}})
		q := ""
		if r.chance(2, 3) {
			q = fmt.Sprintf("@left(%d)", 1+r.intn(3))
		}
		g.rules = append(g.rules, gRule{name: "ey", prods: []gProd{{terms: []gTerm{{kind: 1, name: "ex"}, {kind: 0, name: g.tokens[0]}, {kind: 0, name: g.tokens[0]}}, qual: q}}})
	}
	g.rules = append(g.rules, e)
	// make it reachable from the start rule sometimes
	if r.chance(2, 3) {
		g.rules[0].prods = append(g.rules[0].prods, gProd{terms: []gTerm{{kind: 1, name: "ex"}}})
	}
	return g
}

type refAuto struct {
	ok        bool
	conflicts bool
	states    [][][3]int
	trans     [][4]int // from, isT, sym, to
	cells     []refCell
}

type refAct struct {
	typ, arg int
	prods    []int
}

type refCell struct {
	state, term int
	raw, res    []refAct
	conflict    bool
}

func readActs(a *resp) []refAct {
	n := a.int()
	out := make([]refAct, n)
	for i := range out {
		t := a.int()
		switch t {
		case 0:
			out[i] = refAct{typ: 0, arg: a.int()}
			out[i].prods = a.ints()
		case 1:
			out[i] = refAct{typ: 1, arg: a.int()}
		default:
			out[i] = refAct{typ: 2}
		}
	}
	return out
}

func readRefAuto(a *resp) *refAuto {
	r := &refAuto{}
	r.ok = a.int() == 1
	a.int()
	r.conflicts = a.int() == 1
	ns := a.int()
	for i := 0; i < ns; i++ {
		ni := a.int()
		items := make([][3]int, ni)
		for k := range items {
			items[k] = [3]int{a.int(), a.int(), a.int()}
		}
		r.states = append(r.states, items)
	}
	nt := a.int()
	for i := 0; i < nt; i++ {
		r.trans = append(r.trans, [4]int{a.int(), a.int(), a.int(), a.int()})
	}
	nc := a.int()
	for i := 0; i < nc; i++ {
		c := refCell{state: a.int(), term: a.int()}
		c.raw = readActs(a)
		c.res = readActs(a)
		c.conflict = a.int() == 1
		r.cells = append(r.cells, c)
	}
	return r
}

func coreKey(items [][3]int) string {
	set := map[[2]int]bool{}
	for _, it := range items {
		set[[2]int{it[0], it[1]}] = true
	}
	var ks [][2]int
	for k := range set {
		ks = append(ks, k)
	}
	sort.Slice(ks, func(i, j int) bool {
		if ks[i][0] != ks[j][0] {
			return ks[i][0] < ks[j][0]
		}
		return ks[i][1] < ks[j][1]
	})
	return fmt.Sprint(ks)
}

func itemSet(items [][3]int) map[[3]int]bool {
	m := map[[3]int]bool{}
	for _, it := range items {
		m[it] = true
	}
	return m
}

func checkC04(c *checkCtx) {
	c.level = "translation_validation"
	c.cov.Rule = "random grammars (conflict-free, conflicting, with and without @left/@right qualifiers, nullable and recursive rules, sugar); lox's LALR automaton dumped by the hook is compared state by state (matched by LR(0) core: item sets with lookaheads, transitions, resolved action cells, the conflict verdict) with the Gallina reference construction lalr_ref (canonical LR(1) collection merged by core, FIRST by least fixed point, resolution as documented); FIRST of every rule is compared with first_spec; non-trivial = the grammar has at least 4 states and either a conflict or a nullable rule"
	c.assume = []string{
		"the reference construction Gen/LALRRef.v is a specification (canonical LR(1) + merge), proved closed/sound for closure and goto and for FIRST (first_spec_sound/complete); it is not itself proved to be 'the' LALR(1) automaton beyond those lemmas",
		"cells whose resolution depends on associativity at equal level are compared with lox's own rule here; whether that rule is the documented one is C05's subject",
	}
	c.coqObligations()
	n := 120
	if c.thorough() {
		n = 1500
	}
	var specs []string
	for _, t := range corpusGrammars() {
		specs = append(specs, t)
	}
	for i := 0; i < n; i++ {
		var g *gSpec
		switch i % 3 {
		case 0:
			g = genPrecGrammar(c.rng)
		case 1:
			g = genGrammar(c.rng, gramOpts{maxRules: 5, maxTokens: 4, allowError: true})
		default:
			g = genGrammar(c.rng, gramOpts{maxRules: 4, maxTokens: 3})
		}
		specs = append(specs, g.text())
	}
	ws := newWorkspace("c04")
	defer ws.close()
	for _, t := range specs {
		ws.add(t)
	}
	if err := ws.dumpAll(); err != nil {
		c.addFinding(finding{Signature: "hook-failed", Desc: err.Error(), NoInput: true, Theorem: "loxverif dump", Replay: map[string]any{}})
		return
	}
	var reqs []*req
	var idx []*wsSpec
	for _, s := range ws.specs {
		d := s.dump
		if !d.OK {
			if d.Stage == "panic" {
				c.addFinding(finding{Signature: "generator-panic", Desc: "lox panicked: " + lastLines(d.Diag, 2), Replay: map[string]any{"spec": s.loxText}})
			}
			continue
		}
		id := len(idx)
		idx = append(idx, s)
		g := newReq("grammar").i(id).i(len(d.Prods))
		for _, p := range d.Prods {
			g.i(p.Rule).i(len(p.Terms))
			for _, t := range p.Terms {
				g.b(t.T).i(t.I)
			}
		}
		reqs = append(reqs, g)
		l := newReq("lalr").i(id).i(len(d.Prods))
		for _, p := range d.Prods {
			l.i(p.Prec)
		}
		l.i(len(d.Prods))
		for _, p := range d.Prods {
			l.b(p.Assoc == 1)
		}
		reqs = append(reqs, l)
		for _, r := range d.Rules {
			reqs = append(reqs, newReq("firstspec").i(id).i(r.Index))
		}
	}
	ans, err := callModel(reqs)
	if err != nil {
		c.addFinding(finding{Signature: "model-failed", Desc: err.Error(), NoInput: true, Theorem: "loxmodel", Replay: map[string]any{}})
		return
	}
	p := 0
	conflictsSeen, accepted := 0, 0
	for _, s := range idx {
		d := s.dump
		p++ // grammar
		ref := readRefAuto(ans[p])
		p++
		bad := func(sig, desc string, extra map[string]any) {
			extra["spec"] = s.loxText
			c.addFinding(finding{Signature: sig, Desc: desc, Replay: extra, Theorem: "correspondence ConstructLALR vs Gen/LALRRef.lalr_ref"})
		}
		// FIRST per rule
		for _, r := range d.Rules {
			a := ans[p]
			p++
			null := a.int() == 1
			fs := a.ints()
			want := append([]int{}, fs...)
			if null {
				want = append([]int{-1}, want...)
			}
			sort.Ints(want)
			got := append([]int{}, r.First...)
			sort.Ints(got)
			if r.Kind != "sprime" && !eqInts(got, want) {
				bad("first-set-differs", fmt.Sprintf("FIRST(%s) = %v (-1 is ε), the least fixed point is %v", r.Name, got, want), map[string]any{"rule": r.Name, "lox": got, "spec": want})
			}
		}
		if !ref.ok {
			continue
		}
		nullable := false
		for _, pr := range d.Prods {
			if len(pr.Terms) == 0 {
				nullable = true
			}
		}
		c.note(s.loxText, len(d.States) >= 4 && (d.HasConflicts || nullable))
		if len(c.cov.Samples) < 3 {
			c.sample(map[string]any{"grammar": s.loxText, "states": len(d.States), "conflicts": d.HasConflicts, "reference_conflicts": ref.conflicts})
		}
		if d.HasConflicts {
			conflictsSeen++
		} else {
			accepted++
		}
		if d.HasConflicts != ref.conflicts {
			what := "lox reports conflicts for a grammar whose LALR(1) automaton has none left after precedence resolution"
			if ref.conflicts {
				what = "lox accepts a grammar whose LALR(1) automaton keeps more than one action in some cell"
			}
			bad("conflict-verdict-differs", what, map[string]any{"lox_has_conflicts": d.HasConflicts, "reference_has_conflicts": ref.conflicts})
			continue
		}
		// match states by LR(0) core
		refByCore := map[string]int{}
		for i, items := range ref.states {
			refByCore[coreKey(items)] = i
		}
		toRef := make([]int, len(d.States))
		mismatch := false
		if len(d.States) != len(ref.states) {
			bad("automaton-state-count-differs", fmt.Sprintf("lox built %d states, the LALR(1) automaton has %d", len(d.States), len(ref.states)), map[string]any{})
			continue
		}
		for i, st := range d.States {
			j, ok := refByCore[coreKey(st.Items)]
			if !ok {
				bad("automaton-state-unknown", fmt.Sprintf("state %d of lox has a core that no LALR(1) state has", i), map[string]any{"state": i, "items": st.Items})
				mismatch = true
				break
			}
			toRef[i] = j
			a, b := itemSet(st.Items), itemSet(ref.states[j])
			for it := range b {
				if !a[it] {
					bad("lookahead-missing", fmt.Sprintf("state %d lacks item [prod %d, dot %d, lookahead %s] of the LALR(1) automaton", i, it[0], it[1], d.Terminals[it[2]].Name), map[string]any{"state": i, "item": it})
					mismatch = true
				}
			}
			for it := range a {
				if !b[it] {
					bad("lookahead-extra", fmt.Sprintf("state %d has item [prod %d, dot %d, lookahead %s] which the LALR(1) automaton does not have", i, it[0], it[1], d.Terminals[it[2]].Name), map[string]any{"state": i, "item": it})
					mismatch = true
				}
			}
			if mismatch {
				break
			}
		}
		if mismatch {
			continue
		}
		// transitions
		refTrans := map[[3]int]int{}
		for _, t := range ref.trans {
			refTrans[[3]int{t[0], t[1], t[2]}] = t[3]
		}
		nTrans := 0
		for i, st := range d.States {
			for _, t := range st.Trans {
				nTrans++
				isT := 0
				if t.Sym.T {
					isT = 1
				}
				to, ok := refTrans[[3]int{toRef[i], isT, t.Sym.I}]
				if !ok || to != toRef[t.To] {
					bad("transition-differs", fmt.Sprintf("transition of state %d on symbol %v", i, t.Sym), map[string]any{"state": i})
				}
			}
		}
		if nTrans != len(ref.trans) {
			bad("transition-count-differs", fmt.Sprintf("%d transitions, reference %d", nTrans, len(ref.trans)), map[string]any{})
		}
		// resolved cells
		refCells := map[[2]int]refCell{}
		for _, cl := range ref.cells {
			refCells[[2]int{cl.state, cl.term}] = cl
		}
		ncells := 0
		for i, st := range d.States {
			for _, row := range st.Actions {
				ncells++
				cl, ok := refCells[[2]int{toRef[i], row.Term}]
				var got, want []string
				for _, a := range row.Acts {
					switch a.Type {
					case 0:
						got = append(got, fmt.Sprintf("shift%d", toRef[a.Shift]))
					case 1:
						got = append(got, fmt.Sprintf("reduce%d", a.Prods[0]))
					default:
						got = append(got, "accept")
					}
				}
				if ok {
					for _, a := range cl.res {
						switch a.typ {
						case 0:
							want = append(want, fmt.Sprintf("shift%d", a.arg))
						case 1:
							want = append(want, fmt.Sprintf("reduce%d", a.arg))
						default:
							want = append(want, "accept")
						}
					}
				}
				sort.Strings(got)
				sort.Strings(want)
				if strings.Join(got, ",") != strings.Join(want, ",") {
					bad("action-cell-differs", fmt.Sprintf("state %d on %s: lox keeps %v, the reference keeps %v", i, d.Terminals[row.Term].Name, got, want), map[string]any{"state": i, "terminal": d.Terminals[row.Term].Name, "lox": got, "reference": want})
				}
			}
		}
		if ncells != len(ref.cells) {
			bad("action-cell-count-differs", fmt.Sprintf("%d cells, reference %d", ncells, len(ref.cells)), map[string]any{})
		}
	}
	c.cov.Programs = len(idx)
	c.cov.Extra = mergeExtra(c.cov.Extra, map[string]any{"grammars": len(idx), "with_conflicts": conflictsSeen, "accepted": accepted})
}
