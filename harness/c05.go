package main

import (
	"fmt"
	"strconv"
	"strings"
)

func init() { checks["C05"] = checkC05 }

type opTable struct {
	level []int
	right []bool
}

// one expression grammar: binary operators with qualifiers, atoms, parentheses
func genOpGrammar(r *rng) (*gSpec, *opTable) {
	nlev := 1 + r.intn(3)
	levRight := make([]bool, nlev+1)
	for l := 1; l <= nlev; l++ {
		levRight[l] = r.chance(1, 3)
	}
	nops := nlev + r.intn(2)
	if nops > 4 {
		nops = 4
	}
	g := &gSpec{}
	t := &opTable{}
	e := gRule{name: "e"}
	// the numbers written in the grammar: the levels shifted by an offset (so that 8, 9, 10 occur) and written in
	// decimal with or without leading zeros — "010" is ten
	offset := pick(r, []int{0, 0, 7, 6})
	for i := 0; i < nops; i++ {
		g.tokens = append(g.tokens, fmt.Sprintf("OP%d", i))
		lv := 1 + i%nlev
		if i >= nlev {
			lv = 1 + r.intn(nlev)
		}
		t.level = append(t.level, lv)
		t.right = append(t.right, levRight[lv])
		num := fmt.Sprintf(pick(r, []string{"%d", "%d", "%03d", "%02d"}), lv+offset)
		q := "@left(" + num + ")"
		if levRight[lv] {
			q = "@right(" + num + ")"
		}
		e.prods = append(e.prods, gProd{terms: []gTerm{{kind: 1, name: "e"}, {kind: 0, name: g.tokens[i]}, {kind: 1, name: "e"}}, qual: q})
	}
	g.tokens = append(g.tokens, "NUM", "LP", "RP")
	e.prods = append(e.prods, gProd{terms: []gTerm{{kind: 0, name: "NUM"}}})
	e.prods = append(e.prods, gProd{terms: []gTerm{{kind: 0, name: "LP"}, {kind: 1, name: "e"}, {kind: 0, name: "RP"}}})
	g.rules = append(g.rules, e)
	return g, t
}

// parseSerTree turns the driver's rendering of the root value into the
// rendering of an expression tree, given the terminal numbers.
type serParser struct {
	s string
	p int
}

func (sp *serParser) peek() byte {
	if sp.p < len(sp.s) {
		return sp.s[sp.p]
	}
	return 0
}

// value := N(int,value,...) | T(int,int) | Z | ...
type serVal struct {
	kind     byte // 'N', 'T', 'Z', '?'
	a, b     int
	children []*serVal
}

func (sp *serParser) value() *serVal {
	switch sp.peek() {
	case 'N':
		sp.p += 2
		v := &serVal{kind: 'N'}
		v.a = sp.num()
		for sp.peek() == ',' {
			sp.p++
			v.children = append(v.children, sp.value())
		}
		sp.p++ // )
		return v
	case 'T':
		sp.p += 2
		v := &serVal{kind: 'T'}
		v.a = sp.num()
		sp.p++
		v.b = sp.num()
		sp.p++
		return v
	default:
		// skip an atom like Z
		for sp.p < len(sp.s) && sp.s[sp.p] != ',' && sp.s[sp.p] != ')' {
			sp.p++
		}
		return &serVal{kind: 'Z'}
	}
}

func (sp *serParser) num() int {
	st := sp.p
	for sp.p < len(sp.s) && (sp.s[sp.p] == '-' || (sp.s[sp.p] >= '0' && sp.s[sp.p] <= '9')) {
		sp.p++
	}
	n, _ := strconv.Atoi(sp.s[st:sp.p])
	return n
}

func exprOf(v *serVal, opIndex map[int]int) string {
	if v == nil || v.kind != 'N' {
		return "?"
	}
	switch len(v.children) {
	case 1:
		return fmt.Sprintf("A%d", v.children[0].b)
	case 3:
		if v.children[1].kind == 'T' {
			op, ok := opIndex[v.children[1].a]
			if !ok {
				return "?"
			}
			return fmt.Sprintf("B(%d,%s,%s)", op, exprOf(v.children[0], opIndex), exprOf(v.children[2], opIndex))
		}
		return "P(" + exprOf(v.children[1], opIndex) + ")"
	}
	return "?"
}

func checkC05(c *checkCtx) {
	c.level = "translation_validation"
	c.cov.Rule = "expression grammars e = e OP e @left/@right(n) | ... | NUM | '(' e ')' with 1-3 levels, 1-4 operators (several per level, uniform associativity per level); the compiled parser's tree for operator sequences (all sequences up to 3 operators over the operator set, sampled longer ones, with parenthesised sub-expressions) is compared with the Gallina precedence-climbing reference Gen/PrecClimb.climb, which is proved to return THE unique well-grouped tree (climb_characterised, well_grouped_unique); also grammars with TWO expression rules sharing the operator tokens under different level numbers (levels are local to a rule); non-trivial = the sequence has >= 2 operators"
	c.assume = []string{
		"reference: Gen/PrecClimb.v, characterised by well_grouped (C05_climb_characterised) — the property's own wording made precise",
		"the local rule of resolveConflicts is proved to agree with the documented choice except for equal level + @right when the shift action lists more than one production entry (known finding)",
	}
	c.coqObligations()
	nG := 12
	if c.thorough() {
		nG = 120
	}
	checkUnqualifiedUnaffected(c, nG)
	checkTwoRuleLevels(c, nG/2)
	ws := newWorkspace("c05")
	defer ws.close()
	type meta struct {
		g *gSpec
		t *opTable
	}
	for i := 0; i < nG; i++ {
		g, t := genOpGrammar(c.rng)
		s := ws.add(g.text())
		s.tag = &meta{g, t}
	}
	if err := ws.dumpAll(); err != nil {
		c.addFinding(finding{Signature: "hook-failed", Desc: err.Error(), NoInput: true, Theorem: "loxverif dump", Replay: map[string]any{}})
		return
	}
	for _, s := range ws.specs {
		d := s.dump
		if !d.OK || d.HasConflicts {
			c.addFinding(finding{Signature: "qualified-expression-grammar-refused",
				Desc:   "lox refused an expression grammar whose binary alternatives all carry qualifiers: " + lastLines(d.Diag, 2),
				Replay: map[string]any{"spec": s.loxText, "has_conflicts": d.HasConflicts}})
			continue
		}
		s.goText = genUserGo(d, userOpts{})
	}
	ws.genAll()
	ws.buildAll()
	type job struct {
		s      *wsSpec
		m      *meta
		inputs [][]int // token numbers
		etoks  [][]int // model encoding
	}
	var jobs []*job
	for _, s := range ws.specs {
		if s.goText == "" || s.loxCode != 0 || !s.built {
			if s.goText != "" {
				c.addFinding(finding{Signature: "spec-not-generated", Desc: lastLines(s.loxOut+s.buildErr, 3), Replay: map[string]any{"spec": s.loxText}})
			}
			continue
		}
		m := s.tag.(*meta)
		j := &job{s: s, m: m}
		term := map[string]int{}
		for _, t := range s.dump.Terminals {
			term[t.Name] = t.Index
		}
		nops := len(m.t.level)
		// build sequences: operands NUM or (NUM op NUM), operators chosen
		add := func(ops []int, parenAt int) {
			var toks, et []int
			pos := 0
			atom := func(paren bool) {
				if paren {
					toks = append(toks, term["LP"])
					et = append(et, 2)
					pos++
					toks = append(toks, term["NUM"])
					et = append(et, 0, pos)
					pos++
					toks = append(toks, term[fmt.Sprintf("OP%d", ops[0])])
					et = append(et, 1, ops[0])
					pos++
					toks = append(toks, term["NUM"])
					et = append(et, 0, pos)
					pos++
					toks = append(toks, term["RP"])
					et = append(et, 3)
					pos++
					return
				}
				toks = append(toks, term["NUM"])
				et = append(et, 0, pos)
				pos++
			}
			atom(parenAt == 0)
			for i, op := range ops {
				toks = append(toks, term[fmt.Sprintf("OP%d", op)])
				et = append(et, 1, op)
				pos++
				atom(parenAt == i+1)
			}
			j.inputs = append(j.inputs, toks)
			j.etoks = append(j.etoks, et)
		}
		var rec func(prefix []int, n int)
		rec = func(prefix []int, n int) {
			if len(prefix) > 0 {
				add(append([]int{}, prefix...), -1)
			}
			if n == 0 {
				return
			}
			for op := 0; op < nops; op++ {
				rec(append(prefix, op), n-1)
			}
		}
		rec(nil, 3)
		for k := 0; k < 25; k++ {
			n := 4 + c.rng.intn(4)
			ops := make([]int, n)
			for i := range ops {
				ops[i] = c.rng.intn(nops)
			}
			add(ops, c.rng.intn(n+3)-1)
		}
		jobs = append(jobs, j)
	}
	c.cov.Programs = len(jobs)
	var reqs []*req
	for _, j := range jobs {
		for variant := 0; variant < 2; variant++ {
			for _, et := range j.etoks {
				q := newReq("climb").i(len(j.m.t.level))
				for i := range j.m.t.level {
					q.i(j.m.t.level[i]).b(variant == 0 && j.m.t.right[i])
				}
				// count tokens in et encoding
				n := 0
				for p := 0; p < len(et); n++ {
					if et[p] == 0 || et[p] == 1 {
						p += 2
					} else {
						p++
					}
				}
				q.i(n)
				for _, x := range et {
					q.i(x)
				}
				reqs = append(reqs, q)
			}
		}
	}
	ans, err := callModel(reqs)
	if err != nil {
		c.addFinding(finding{Signature: "model-failed", Desc: err.Error(), NoInput: true, Theorem: "loxmodel", Replay: map[string]any{}})
		return
	}
	parallel(len(jobs), func(i int) {
		j := jobs[i]
		var lines []string
		for _, w := range j.inputs {
			var sb strings.Builder
			sb.WriteString("P")
			for _, t := range w {
				fmt.Fprintf(&sb, " %d", t)
			}
			lines = append(lines, sb.String())
		}
		j.s.loxOut = strings.Join(j.s.runInputs(lines), "\n")
	})
	p := 0
	for _, j := range jobs {
		out := strings.Split(j.s.loxOut, "\n")
		opIndex := map[int]int{}
		for _, t := range j.s.dump.Terminals {
			if strings.HasPrefix(t.Name, "OP") {
				n, _ := strconv.Atoi(t.Name[2:])
				opIndex[t.Index] = n
			}
		}
		n := len(j.inputs)
		for k := range j.inputs {
			doc := ans[p+k]
			allLeft := ans[p+n+k]
			doc.int()
			want := doc.word()
			allLeft.int()
			wantLeft := allLeft.word()
			got := "none"
			if k < len(out) {
				f := strings.Split(out[k], "\t")
				if f[0] == "ACC" && len(f) >= 3 {
					evs := strings.Fields(f[2])
					if len(evs) > 0 {
						last := evs[len(evs)-1]
						if i := strings.Index(last, "="); i >= 0 {
							sp := &serParser{s: last[i+1:]}
							got = exprOf(sp.value(), opIndex)
						}
					}
				}
			}
			nops := strings.Count(want, "B(")
			c.note(j.s.name+fmt.Sprint(j.inputs[k]), nops >= 2)
			if k == 5 && len(c.cov.Samples) < 3 {
				c.sample(map[string]any{"grammar": j.s.loxText, "tokens": tokenNames(j.s.dump, j.inputs[k]), "parser_tree": got, "reference_tree": want})
			}
			if got != want {
				sig := "operator-grouping-differs"
				desc := fmt.Sprintf("on %v the generated parser builds %s, precedence climbing gives %s", tokenNames(j.s.dump, j.inputs[k]), got, want)
				if got == wantLeft {
					sig = "right-assoc-equal-level-groups-left"
					desc += " (the parser groups the @right level left-to-right)"
				}
				c.addFinding(finding{Signature: sig, Desc: desc,
					Replay: map[string]any{"spec": j.s.loxText, "tokens": j.inputs[k], "token_names": tokenNames(j.s.dump, j.inputs[k]), "parser_tree": got, "reference_tree": want}})
			}
		}
		p += 2 * n
	}
}

// checkUnqualifiedUnaffected: "unqualified alternatives are unaffected": a
// conflict that involves an alternative without qualifier (a prefix or postfix
// operator next to qualified binary ones) must not be settled by precedence;
// lox's verdict must be the reference construction's verdict.
func checkUnqualifiedUnaffected(c *checkCtx, n int) {
	ws := newWorkspace("c05u")
	defer ws.close()
	for i := 0; i < n; i++ {
		g, _ := genOpGrammar(c.rng)
		e := &g.rules[0]
		op := g.tokens[c.rng.intn(len(g.tokens)-3)]
		switch c.rng.intn(3) {
		case 0: // prefix
			e.prods = append(e.prods, gProd{terms: []gTerm{{kind: 0, name: op}, {kind: 1, name: "e"}}})
		case 1: // postfix
			e.prods = append(e.prods, gProd{terms: []gTerm{{kind: 1, name: "e"}, {kind: 0, name: "NUM"}}})
		default: // unqualified binary
			e.prods = append(e.prods, gProd{terms: []gTerm{{kind: 1, name: "e"}, {kind: 0, name: "LP"}, {kind: 1, name: "e"}}})
		}
		ws.add(g.text())
	}
	if err := ws.dumpAll(); err != nil {
		return
	}
	var reqs []*req
	var used []*wsSpec
	for _, s := range ws.specs {
		d := s.dump
		if !d.OK {
			continue
		}
		id := len(used)
		used = append(used, s)
		g := newReq("grammar").i(id).i(len(d.Prods))
		for _, p := range d.Prods {
			g.i(p.Rule).i(len(p.Terms))
			for _, t := range p.Terms {
				g.b(t.T).i(t.I)
			}
		}
		l := newReq("lalr").i(id).i(len(d.Prods))
		for _, p := range d.Prods {
			l.i(p.Prec)
		}
		l.i(len(d.Prods))
		for _, p := range d.Prods {
			l.b(p.Assoc == 1)
		}
		reqs = append(reqs, g, l)
	}
	ans, err := callModel(reqs)
	if err != nil {
		return
	}
	for i, s := range used {
		ref := readRefAuto(ans[2*i+1])
		c.note("unq"+s.loxText, true)
		if ref.ok && s.dump.HasConflicts != ref.conflicts {
			what := "lox accepts the grammar: precedence silently settled a conflict that involves an alternative without qualifier"
			if s.dump.HasConflicts {
				what = "lox reports conflicts although none involves more than qualified alternatives of one rule"
			}
			c.addFinding(finding{Signature: "unqualified-alternative-affected", Desc: what,
				Replay: map[string]any{"spec": s.loxText, "lox_has_conflicts": s.dump.HasConflicts, "reference_has_conflicts": ref.conflicts}})
		}
	}
}

// checkTwoRuleLevels: precedence levels belong to the rule that declares them.  Two expression rules e and f use
// the SAME operator tokens with different level numbers (s = e SEP f); each side of SEP must be grouped by the
// levels of its own rule.  All @left, so the known @right finding does not interfere.
func checkTwoRuleLevels(c *checkCtx, n int) {
	ws := newWorkspace("c05t")
	defer ws.close()
	type meta struct{ lev [2][]int }
	for i := 0; i < n; i++ {
		nops := 2 + c.rng.intn(2)
		g := &gSpec{}
		for k := 0; k < nops; k++ {
			g.tokens = append(g.tokens, fmt.Sprintf("OP%d", k))
		}
		g.tokens = append(g.tokens, "NUM", "LP", "RP", "SEP")
		m := &meta{}
		// e: levels ascending with the operator number; f: another numbering of the same tokens
		perm := c.rng.perm(nops)
		base := []int{1, 1 + c.rng.intn(4)}
		rules := []gRule{{name: "s", prods: []gProd{{terms: []gTerm{{kind: 1, name: "e"}, {kind: 0, name: "SEP"}, {kind: 1, name: "f"}}}}}}
		for side, name := range []string{"e", "f"} {
			r := gRule{name: name}
			for k := 0; k < nops; k++ {
				lv := base[side] + k
				if side == 1 {
					lv = base[side] + perm[k]
				}
				m.lev[side] = append(m.lev[side], lv)
				r.prods = append(r.prods, gProd{terms: []gTerm{{kind: 1, name: name}, {kind: 0, name: g.tokens[k]}, {kind: 1, name: name}}, qual: fmt.Sprintf("@left(%d)", lv)})
			}
			r.prods = append(r.prods, gProd{terms: []gTerm{{kind: 0, name: "NUM"}}})
			r.prods = append(r.prods, gProd{terms: []gTerm{{kind: 0, name: "LP"}, {kind: 1, name: name}, {kind: 0, name: "RP"}}})
			rules = append(rules, r)
		}
		if c.rng.chance(1, 2) {
			rules[1], rules[2] = rules[2], rules[1] // declaration order of the two operator rules
		}
		g.rules = rules
		s := ws.add(g.text())
		s.tag = m
	}
	if err := ws.dumpAll(); err != nil {
		c.addFinding(finding{Signature: "hook-failed", Desc: err.Error(), NoInput: true, Theorem: "loxverif dump", Replay: map[string]any{}})
		return
	}
	for _, s := range ws.specs {
		d := s.dump
		if !d.OK || d.HasConflicts {
			c.addFinding(finding{Signature: "qualified-expression-grammar-refused",
				Desc:   "lox refused a grammar with two expression rules whose binary alternatives all carry qualifiers: " + lastLines(d.Diag, 2),
				Replay: map[string]any{"spec": s.loxText, "has_conflicts": d.HasConflicts}})
			continue
		}
		s.goText = genUserGo(d, userOpts{})
	}
	ws.genAll()
	ws.buildAll()
	type job struct {
		s      *wsSpec
		m      *meta
		inputs [][]int
		ops    [][2][]int
	}
	var jobs []*job
	var reqs []*req
	for _, s := range ws.specs {
		if s.goText == "" || s.loxCode != 0 || !s.built {
			if s.goText != "" {
				c.addFinding(finding{Signature: "spec-not-generated", Desc: lastLines(s.loxOut+s.buildErr, 3), Replay: map[string]any{"spec": s.loxText}})
			}
			continue
		}
		m := s.tag.(*meta)
		j := &job{s: s, m: m}
		term := map[string]int{}
		for _, t := range s.dump.Terminals {
			term[t.Name] = t.Index
		}
		nops := len(m.lev[0])
		var seqs [][]int
		var rec func(prefix []int, n int)
		rec = func(prefix []int, n int) {
			seqs = append(seqs, append([]int{}, prefix...))
			if n == 0 {
				return
			}
			for op := 0; op < nops; op++ {
				rec(append(prefix, op), n-1)
			}
		}
		rec(nil, 2)
		for k := 0; k < 12; k++ {
			l := 3 + c.rng.intn(3)
			ops := make([]int, l)
			for i := range ops {
				ops[i] = c.rng.intn(nops)
			}
			seqs = append(seqs, ops)
		}
		for k := 0; k < 40; k++ {
			pair := [2][]int{pick(c.rng, seqs), pick(c.rng, seqs)}
			if len(pair[0])+len(pair[1]) < 2 {
				continue
			}
			var toks []int
			for side := 0; side < 2; side++ {
				if side == 1 {
					toks = append(toks, term["SEP"])
				}
				toks = append(toks, term["NUM"])
				for _, op := range pair[side] {
					toks = append(toks, term[fmt.Sprintf("OP%d", op)], term["NUM"])
				}
			}
			j.inputs = append(j.inputs, toks)
			j.ops = append(j.ops, pair)
			off := 0
			for side := 0; side < 2; side++ {
				q := newReq("climb").i(nops)
				for i := 0; i < nops; i++ {
					q.i(m.lev[side][i]).b(false)
				}
				q.i(2*len(pair[side]) + 1)
				pos := off
				q.i(0).i(pos)
				pos++
				for _, op := range pair[side] {
					q.i(1).i(op)
					pos++
					q.i(0).i(pos)
					pos++
				}
				off = pos + 1 // SEP
				reqs = append(reqs, q)
			}
		}
		jobs = append(jobs, j)
	}
	ans, err := callModel(reqs)
	if err != nil {
		c.addFinding(finding{Signature: "model-failed", Desc: err.Error(), NoInput: true, Theorem: "loxmodel", Replay: map[string]any{}})
		return
	}
	parallel(len(jobs), func(i int) {
		j := jobs[i]
		var lines []string
		for _, w := range j.inputs {
			var sb strings.Builder
			sb.WriteString("P")
			for _, t := range w {
				fmt.Fprintf(&sb, " %d", t)
			}
			lines = append(lines, sb.String())
		}
		j.s.loxOut = strings.Join(j.s.runInputs(lines), "\n")
	})
	p := 0
	for _, j := range jobs {
		out := strings.Split(j.s.loxOut, "\n")
		opIndex := map[int]int{}
		for _, t := range j.s.dump.Terminals {
			if strings.HasPrefix(t.Name, "OP") {
				n, _ := strconv.Atoi(t.Name[2:])
				opIndex[t.Index] = n
			}
		}
		for k := range j.inputs {
			var want [2]string
			for side := 0; side < 2; side++ {
				a := ans[p]
				p++
				a.int()
				want[side] = a.word()
			}
			got := [2]string{"none", "none"}
			if k < len(out) {
				f := strings.Split(out[k], "\t")
				if f[0] == "ACC" && len(f) >= 3 {
					evs := strings.Fields(f[2])
					if len(evs) > 0 {
						last := evs[len(evs)-1]
						if i := strings.Index(last, "="); i >= 0 {
							sp := &serParser{s: last[i+1:]}
							root := sp.value()
							if root != nil && len(root.children) == 3 {
								got[0] = exprOf(root.children[0], opIndex)
								got[1] = exprOf(root.children[2], opIndex)
							}
						}
					}
				}
			}
			c.note(j.s.name+"two"+fmt.Sprint(j.inputs[k]), true)
			if got != want {
				c.addFinding(finding{Signature: "operator-grouping-differs-two-rules",
					Desc: fmt.Sprintf("two expression rules share their operator tokens with different levels; on %v the generated parser builds %v, precedence climbing with each rule's own levels gives %v",
						tokenNames(j.s.dump, j.inputs[k]), got, want),
					Replay: map[string]any{"spec": j.s.loxText, "tokens": j.inputs[k], "token_names": tokenNames(j.s.dump, j.inputs[k]), "parser_trees": got, "reference_trees": want}})
			}
		}
	}
}
