package main

// splitmix64: every random choice of a run derives from VERIF_SEED.
type rng struct{ s uint64 }

func newRng(seed int64) *rng { return &rng{s: uint64(seed)*0x9E3779B97F4A7C15 + 0x1234567} }

func (r *rng) next() uint64 {
	r.s += 0x9E3779B97F4A7C15
	z := r.s
	z = (z ^ (z >> 30)) * 0xBF58476D1CE4E5B9
	z = (z ^ (z >> 27)) * 0x94D049BB133111EB
	return z ^ (z >> 31)
}

func (r *rng) intn(n int) int {
	if n <= 0 {
		return 0
	}
	return int(r.next() % uint64(n))
}

func (r *rng) chance(num, den int) bool { return r.intn(den) < num }

func (r *rng) fork() *rng { return &rng{s: r.next()} }

func pick[T any](r *rng, xs []T) T { return xs[r.intn(len(xs))] }

// perm: a random permutation of 0..n-1
func (r *rng) perm(n int) []int {
	p := make([]int, n)
	for i := range p {
		p[i] = i
	}
	for i := n - 1; i > 0; i-- {
		j := r.intn(i + 1)
		p[i], p[j] = p[j], p[i]
	}
	return p
}
