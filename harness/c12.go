package main

import (
	"fmt"
	"os"
	"path/filepath"
	"regexp"
	"sort"
	"strings"
	"sync"
	"time"
)

func init() { checks["C12"] = checkC12 }

var loxVocab = []string{
	"@lexer", "@parser", "@start", "@discard", "@macro", "@frag", "@mode", "@push_mode", "@pop_mode", "@error",
	"@left", "@right", "@list", "@emit", "@empty", "@external", "@frog",
	"(", ")", "{", "}", "[", "]", "=", "|", ",", "-", "~", ".", "?", "*", "*?", "+", "+?", "*!", "\\", "\n", "\n", " ",
	"A", "B", "NUM", "expr", "s", "x", "0", "1", "99999999999999999999", "'a'", "''", "'\\n'", "'\\", "'\\x4'", "'\\u12'", "[a-z]", "[\\]", "[z-a]", "[\\x]", "~[a]", "[a]-[b]",
	"(1)", "(0)", "()", "//", "/* */", "\t", "é", "\xff",
	// escapes at and beyond the limits of the numeric types involved (int32 / uint32 / code-point range / surrogates)
	"'\\U80000000'", "[\\UFFFFFFFF]", "'\\U7FFFFFFF'", "'\\U00110000'", "[\\U0010FFFF-\\U00110000]", "'\\uD800'", "[\\uDFFF]", "'\\xFF'", "'\\x00'", "[\\x00-\\U0010FFFF]", "'\\u0000'",
}

var goVariants = map[string]string{
	"ok": `package main

type Token struct{ Type int }
type P struct{ lox }
`,
	"ill-typed-below-line-directive": `package main

type Token struct{ Type int }
type P struct{ lox }

//line actions.tmpl:40
func (p *P) on_s(a Token) int { return toInt(a) }
`,
	"syntax-error-below-line-directive": `package main

type Token struct{ Type int }
type P struct{ lox }

//line actions.y:7
func (p *P) on_s(a Token) int { return ( }
`,
	"ill-typed-line-directive-with-column": `package main

type Token struct{ Type int }
type P struct{ lox }

/*line other.go:3:9*/ var x int = "s"
`,
	"no-token": `package main

type P struct{ lox }
`,
	"no-parser-struct": `package main

type Token struct{ Type int }
`,
	"two-parser-structs": `package main

type Token struct{ Type int }
type P struct{ lox }
type Q struct{ lox }
`,
	"generic-parser": `package main

type Token struct{ Type int }
type P[T any] struct{ lox; x T }
`,
	"ill-typed": `package main

type Token struct{ Type int }
type P struct{ lox }
func (p *P) on_s(a NoSuchType) int { return "x" }
`,
	"syntax-error": `package main

type Token struct{ Type int
`,
	"empty-file": ``,
	"other-package-name": `package notmain

type Token = int
type P struct{ lox }
`,
	"action-two-results": `package main

type Token struct{ Type int }
type P struct{ lox }
func (p *P) on_s(a Token) (int, error) { return 0, nil }
`,
	"action-variadic": `package main

type Token struct{ Type int }
type P struct{ lox }
func (p *P) on_s(a ...Token) int { return 0 }
`,
}

type c12Case struct {
	name  string
	files map[string]string // relative path -> content; "" key absent
	noMod bool
}

var identRe = regexp.MustCompile(`[A-Za-z_][A-Za-z0-9_]*`)

func classifyLox(dir string, r cmdResult) (ok bool, why string) {
	out := string(r.Out) + string(r.Err)
	if r.TimedOut {
		return false, "hangs (no exit within the time limit)"
	}
	if strings.Contains(out, "panic:") || strings.Contains(out, "goroutine ") || strings.Contains(out, "runtime error") || r.Code == 2 && strings.Contains(out, "[recovered]") {
		return false, "panics: " + lastLines(out, 4)
	}
	if r.Code == 0 {
		for _, f := range genFiles {
			st, err := os.Stat(filepath.Join(dir, f))
			if err != nil || st.Size() == 0 {
				return false, "exits 0 but " + f + " is missing or empty"
			}
		}
		return true, ""
	}
	if r.Code < 0 || r.Code > 1 {
		return false, fmt.Sprintf("exits with status %d: %s", r.Code, lastLines(out, 3))
	}
	if strings.TrimSpace(string(r.Err)) == "" {
		return false, "exits non-zero without any diagnostic"
	}
	return true, ""
}

func checkC12(c *checkCtx) {
	c.level = "exploration"
	c.cov.Rule = "the real lox binary is run on (a) token-level mutations (insert / delete / replace / duplicate / swap over a vocabulary of lox keywords, punctuation, cardinalities, malformed escapes and numerals) of the shipped grammars and of generated valid specifications, (b) byte-level damage incl. invalid UTF-8 and truncation, (c) valid grammars with Go packages that are missing, empty, syntactically wrong, ill-typed, lack Token or the parser struct, have two or a generic parser struct, or odd action signatures; each outcome must be: exit 0 with all three files written, or exit 1 with a diagnostic — never a panic, a hang, another status, or exit 0 with missing output; non-trivial = the mutant differs from every earlier one and is not byte-identical to a valid input"
	c.assume = []string{"PARTIAL by nature: go/packages, the template engine, go/format and the OS are outside any model; termination of the generator's own loops is proved on the Gallina mirrors (normalize, subtract, flatten, FIRST, closure) in C15/C04; this check explores"}
	c.coqObligations()
	checkEscapes(c)
	nMut := 300
	if c.thorough() {
		nMut = 4000
	}
	top := scratchDir("c12")
	defer os.RemoveAll(top)
	os.WriteFile(filepath.Join(top, "go.mod"), []byte("module c12\n\ngo 1.23.0\n\nrequire github.com/dcaiafa/loxlex v0.5.0\n"), 0o644)
	if sum, err := os.ReadFile(filepath.Join(repoDir, "go.sum")); err == nil {
		os.WriteFile(filepath.Join(top, "go.sum"), sum, 0o644)
	}

	var bases []string
	for _, d := range shippedDirs {
		files, _ := filepath.Glob(filepath.Join(repoDir, d, "*.lox"))
		for _, f := range files {
			bases = append(bases, readFile(f))
		}
	}
	for i := 0; i < 6; i++ {
		g := genGrammar(c.rng, gramOpts{maxRules: 4, maxTokens: 4, allowError: true})
		bases = append(bases, g.text())
		sp := genLexSpec(c.rng, lexGenOpts{modes: true, ng: true, accum: true})
		bases = append(bases, sp.text(c.rng)+"@parser\n@start s = T1\n")
	}
	// tokenise roughly: split on spaces/newlines keeping them
	tokenize := func(s string) []string {
		var out []string
		cur := ""
		for _, ch := range s {
			if ch == ' ' || ch == '\n' {
				if cur != "" {
					out = append(out, cur)
					cur = ""
				}
				out = append(out, string(ch))
			} else {
				cur += string(ch)
			}
		}
		if cur != "" {
			out = append(out, cur)
		}
		return out
	}
	type job struct {
		dir   string
		what  string
		input map[string]string
	}
	var jobs []*job
	seen := map[string]bool{}
	addJob := func(what, lox, gosrc string, hasGo bool) {
		key := lox + "\x00" + gosrc
		if seen[key] {
			return
		}
		seen[key] = true
		dir := filepath.Join(top, fmt.Sprintf("m%05d", len(jobs)))
		os.MkdirAll(dir, 0o755)
		in := map[string]string{}
		if lox != "\x00none" {
			os.WriteFile(filepath.Join(dir, "g.lox"), []byte(lox), 0o644)
			in["g.lox"] = lox
		}
		if hasGo {
			os.WriteFile(filepath.Join(dir, "user.go"), []byte(gosrc), 0o644)
			in["user.go"] = gosrc
		}
		jobs = append(jobs, &job{dir: dir, what: what, input: in})
	}
	okGo := goVariants["ok"]
	for i := 0; i < nMut; i++ {
		base := pick(c.rng, bases)
		toks := tokenize(base)
		nm := 1 + c.rng.intn(3)
		for m := 0; m < nm && len(toks) > 0; m++ {
			p := c.rng.intn(len(toks))
			switch c.rng.intn(6) {
			case 5:
				// cross-kind reference: an identifier (often the argument of @push_mode / @emit or a macro
				// reference) is replaced by another name declared in the same specification
				names := identRe.FindAllString(base, -1)
				var cand []int
				for k, t := range toks {
					if strings.Contains(t, "(") && identRe.MatchString(t) {
						cand = append(cand, k, k, k)
					} else if identRe.MatchString(t) {
						cand = append(cand, k)
					}
				}
				if len(cand) > 0 && len(names) > 0 {
					k := pick(c.rng, cand)
					locs := identRe.FindAllStringIndex(toks[k], -1)
					l := locs[len(locs)-1]
					toks[k] = toks[k][:l[0]] + pick(c.rng, names) + toks[k][l[1]:]
				}
			case 0:
				toks = append(toks[:p], toks[p+1:]...)
			case 1:
				toks = append(toks[:p], append([]string{pick(c.rng, loxVocab)}, toks[p:]...)...)
			case 2:
				toks[p] = pick(c.rng, loxVocab)
			case 3:
				toks = append(toks[:p], append([]string{toks[p]}, toks[p:]...)...)
			default:
				q := c.rng.intn(len(toks))
				toks[p], toks[q] = toks[q], toks[p]
			}
		}
		addJob("token-level mutation", strings.Join(toks, ""), okGo, true)
		if i%6 == 0 {
			b := []byte(base)
			if len(b) > 0 {
				switch c.rng.intn(3) {
				case 0:
					b = b[:c.rng.intn(len(b))]
				case 1:
					b[c.rng.intn(len(b))] = byte(c.rng.intn(256))
				default:
					p := c.rng.intn(len(b))
					b = append(b[:p], append([]byte{0xff, 0xfe}, b[p:]...)...)
				}
			}
			addJob("byte-level damage", string(b), okGo, true)
		}
	}
	// the single-fault specifications of the C17 generator (every fault kind), as one file each
	for i := 0; i < 3; i++ {
		for k := 0; k <= c17MaxFault; k++ {
			r2 := newRng(c.seed*77 + int64(i))
			sp, lits := genASpec(r2)
			sp.fault = injectFault(r2, sp, k)
			if sp.fault == "" {
				continue
			}
			for k2, v := range sp.extraLits {
				lits[k2] = v
			}
			files, _ := sp.text(c.rng, lits)
			var names []string
			for n := range files {
				names = append(names, n)
			}
			sort.Strings(names)
			all := ""
			for _, n := range names {
				all += files[n]
			}
			addJob("single-fault specification: "+sp.fault, all, okGo, true)
		}
	}
	// every vocabulary word that is a literal or a class, alone in an otherwise valid specification
	for _, w := range loxVocab {
		if len(w) >= 2 && (w[0] == '\'' || w[0] == '[' || w[0] == '~') {
			addJob("literal/class at a numeric limit", "@lexer\nA = 'a' "+w+"\nB = 'b'\n@parser\n@start s = A B\n", "package main\n\ntype Token struct{ Type int }\ntype P struct{ lox }\n\nfunc (p *P) on_s(a, b Token) int { return 0 }\n", true)
		}
	}
	valid := "@lexer\nA = 'a'\n@parser\n@start s = A\n"
	for name, src := range goVariants {
		addJob("go package: "+name, valid, src, true)
	}
	// rule types whose Go type strings contain characters special to templating / HTML escaping; the rule is used
	// as a term (also under +), so its type is written into the generated casts
	valid2 := "@lexer\nA = 'a'\nB = 'b'\n@parser\n@start s = x+ y\nx = A\ny = B B\n"
	for name, ty := range map[string]string{
		"struct with field tag":   "struct {\n\tK string \x60json:\"k&<>'\"\x60\n}",
		"receive-only channel":    "<-chan map[string]*Token",
		"func with named results": "func(a, b int) (s string, err error)",
	} {
		src := "package main\n\ntype Token struct{ Type int }\ntype P struct{ lox }\n\ntype T = " + ty + "\n\n" +
			"func (p *P) on_x(a Token) " + ty + " { var z T; return z }\n" +
			"func (p *P) on_y(a, b Token) T { var z T; return z }\n" +
			"func (p *P) on_s(xs []" + ty + ", y T) int { return len(xs) }\n"
		addJob("go package: rule type "+name, valid2, src, true)
	}
	// action-method names around the "on_<rule>__<suffix>" convention
	for _, name := range []string{"on__s", "on___s", "on_", "on_s__", "on_s__x__y", "on__", "on_s_", "on_S", "on_s__é"} {
		src := "package main\n\ntype Token struct{ Type int }\ntype P struct{ lox }\n\nfunc (p *P) on_s(a Token) int { return 0 }\nfunc (p *P) " + name + "(a Token) int { return 0 }\n"
		if name == "on_s__" || name == "on_s__x__y" {
			src = "package main\n\ntype Token struct{ Type int }\ntype P struct{ lox }\n\nfunc (p *P) " + name + "(a Token) int { return 0 }\n"
		}
		addJob("go package: method named "+name, valid, src, true)
	}
	addJob("go package: none", valid, "", false)
	addJob("no .lox file", "\x00none", okGo, true)
	addJob("empty .lox file", "", okGo, true)

	// Where the front end accepts the mutated specification, give it a Go package with an action for
	// every production, so that the binding and emission stages are reached too (with the bare package
	// every grammar stops at "missing action").  The production list comes from the hook's dump.
	const chunk = 24
	nch := (len(jobs) + chunk - 1) / chunk
	fitted := 0
	var fitMu sync.Mutex
	parallel(nch, func(ci int) {
		lo, hi := ci*chunk, (ci+1)*chunk
		if hi > len(jobs) {
			hi = len(jobs)
		}
		var dirs []string
		for _, j := range jobs[lo:hi] {
			dirs = append(dirs, j.dir)
		}
		ds, err := dumpDirsT(dirs, 4*time.Minute)
		if err != nil {
			return // the real binary is still run below and judged on its own
		}
		for k, d := range ds {
			j := jobs[lo+k]
			if !d.OK || j.input["user.go"] != okGo || !strings.HasPrefix(j.what, "token-level") && !strings.HasPrefix(j.what, "single-fault") {
				continue
			}
			src := genUserGo(d, userOpts{})
			os.WriteFile(filepath.Join(j.dir, "user.go"), []byte(src), 0o644)
			j.input["user.go"] = src
			j.what += " (with fitted actions)"
			fitMu.Lock()
			fitted++
			fitMu.Unlock()
		}
	})
	results := make([]cmdResult, len(jobs))
	parallel(len(jobs), func(i int) {
		results[i] = run(top, 5*time.Minute, nil, loxBin, jobs[i].dir)
	})
	// a run that hit the limit under 16-way load is repeated alone before it counts as a hang
	for i := range jobs {
		if results[i].TimedOut {
			results[i] = run(top, 15*time.Minute, nil, loxBin, jobs[i].dir)
		}
	}
	accepted, rejected := 0, 0
	for i, j := range jobs {
		ok, why := classifyLox(j.dir, results[i])
		c.note(fmt.Sprint(i), true)
		if results[i].Code == 0 {
			accepted++
		} else {
			rejected++
		}
		if len(c.cov.Samples) < 3 && i%97 == 5 {
			c.sample(map[string]any{"kind": j.what, "exit": results[i].Code, "stderr": lastLines(string(results[i].Err), 2)})
		}
		if os.Getenv("VERIF_DEBUG") != "" && strings.Contains(j.what, "push_mode") {
			fmt.Println("  DEBUG", j.what, results[i].Code, lastLines(string(results[i].Err), 2))
		}
		if !ok {
			// signature: the kind of failure and the innermost lox frame, so that different crashes stay distinct
			sig := "lox-misbehaves: " + strings.SplitN(why, ":", 2)[0]
			out := string(results[i].Err)
			for _, l := range strings.Split(out, "\n") {
				l = strings.TrimSpace(l)
				if strings.HasPrefix(l, "/repo/") {
					sig += " at " + strings.SplitN(strings.TrimPrefix(l, "/repo/"), " ", 2)[0]
					break
				}
			}
			c.addFinding(finding{Signature: sig, Desc: fmt.Sprintf("lox %s on a %s", why, j.what),
				Replay: map[string]any{"files": j.input, "kind": j.what, "exit": results[i].Code, "stderr": lastLines(out, 30)}})
		}
	}
	c.cov.Programs = len(jobs)
	c.cov.Extra = mergeExtra(c.cov.Extra, map[string]any{"exit0": accepted, "diagnosed": rejected, "front_end_accepted_and_given_fitted_actions": fitted})
}
