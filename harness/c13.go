package main

import (
	"bytes"
	"encoding/json"
	"fmt"
	"os"
	"path/filepath"
	"time"
)

func init() { checks["C13"] = checkC13 }

type auditedSite struct {
	rangeSite
	Pattern string `json:"pattern"`
	Lemma   string `json:"lemma"`
}

func copyDir(src, dst string) error {
	r := run("/", 5*time.Minute, nil, "bash", "-c", fmt.Sprintf("mkdir -p %q && tar --exclude=.git -C %q -cf - . | tar -xf - -C %q", dst, src, dst))
	if r.Code != 0 {
		return fmt.Errorf("%s", r.Err)
	}
	return nil
}

var genFiles = []string{"base.gen.go", "lexer.gen.go", "parser.gen.go"}

func readGen(dir string) map[string][]byte {
	out := map[string][]byte{}
	for _, f := range genFiles {
		b, _ := os.ReadFile(filepath.Join(dir, f))
		out[f] = b
	}
	return out
}

func checkC13(c *checkCtx) {
	c.level = "exploration"
	c.cov.Rule = "(a) every `range` over a map in lox's non-test code (found with go/types) must be one of the audited sites, each of which is an instance of a pattern proved order-independent in Gen/MapOrder.v (collect-then-sort with an injective key, set/flag folds, heap of ranges); (b) the shipped grammars and generated ones (with helper rules, modes, several imports) are generated repeatedly by fresh lox processes — Go randomises map iteration per process and per loop — from different working directories, into empty directories, directories that already hold their own output and directories that hold the output of a DIFFERENT grammar; the three files and the --report text must be byte-identical; non-trivial = grammar with at least 3 rules or 2 modes"
	c.assume = []string{"iteration-order logic proved on patterns (MapOrder.v); that each Go site is an instance of its pattern is an audit recorded in corpus/map_range_sites.json, re-checked for drift on every run; process/file-system behaviour is explored, not proved"}
	c.coqObligations()

	// (a) static obligation
	var audited []auditedSite
	data, _ := os.ReadFile(filepath.Join(verifDir, "corpus", "map_range_sites.json"))
	json.Unmarshal(data, &audited)
	sites, err := mapRangeSites()
	if err != nil {
		c.addFinding(finding{Signature: "audit-failed", Desc: err.Error(), NoInput: true, Theorem: "map range audit", Replay: map[string]any{}})
	} else {
		count := map[rangeSite]int{}
		for _, a := range audited {
			count[a.rangeSite]++
		}
		for _, s := range sites {
			c.cov.Evaluations++
			if count[s] == 0 {
				c.addFinding(finding{Signature: "unaudited-map-iteration:" + s.File + ":" + s.Func + ":" + s.Expr,
					Desc:    fmt.Sprintf("%s, %s ranges over the map %s; this site is not among the audited order-independent ones", s.File, s.Func, s.Expr),
					Theorem: "MapOrder.v instances (corpus/map_range_sites.json)", NoInput: true,
					Replay: map[string]any{"site": s}})
			} else {
				count[s]--
			}
		}
		c.cov.Extra = mergeExtra(c.cov.Extra, map[string]any{"map_range_sites": len(sites)})
	}

	// (b) repeated generation
	top := scratchDir("c13")
	defer os.RemoveAll(top)
	if err := copyDir(repoDir, filepath.Join(top, "tree")); err != nil {
		c.addFinding(finding{Signature: "copy-failed", Desc: err.Error(), NoInput: true, Theorem: "harness", Replay: map[string]any{}})
		return
	}
	type target struct {
		name string
		dir  string // pristine directory (inputs only + maybe checked-in output)
		cwd  string // a module root from which packages.Load works
	}
	var targets []target
	for _, d := range shippedDirs {
		targets = append(targets, target{d, filepath.Join(top, "tree", d), filepath.Join(top, "tree")})
	}
	// generated grammars inside a scratch module
	ws := newWorkspace("c13ws")
	defer ws.close()
	nGen := 6
	if c.thorough() {
		nGen = 40
	}
	// two corpus grammars first (one whose RULES are named ERROR and EOF like the built-in terminals:
	// sorting symbols by name does not order them)
	nCorpus := 0
	for _, f := range []string{"rule_named_like_builtin.lox", "nested_caps.lox"} {
		if b, err := os.ReadFile(filepath.Join(verifDir, "corpus", "grammars", f)); err == nil {
			ws.add(string(b))
			nCorpus++
		}
	}
	for i := 0; len(ws.specs) < nGen+nCorpus && i < nGen*6; i++ {
		g := genGrammar(c.rng, gramOpts{maxRules: 5, maxTokens: 5})
		s := ws.add(g.text())
		s.tag = g
	}
	ws.dumpAll()
	for _, s := range ws.specs {
		if s.dump != nil && s.dump.OK && !s.dump.HasConflicts && len(s.dump.Rules) >= 3 {
			os.WriteFile(filepath.Join(s.dir, "parser.go"), []byte(genUserGo(s.dump, userOpts{})), 0o644)
			targets = append(targets, target{s.name, s.dir, ws.dir})
		}
	}
	reps := 4
	if c.thorough() {
		reps = 16
	}
	var ref0 map[string][]byte
	for ti, t := range targets {
		var ref map[string][]byte
		var refReport []byte
		variant := func(label string, prep func(dir string), cwdOf func(dir string) (string, string)) {
			dir := filepath.Join(filepath.Dir(t.dir), filepath.Base(t.dir)+"_"+label)
			copyDir(t.dir, dir)
			defer os.RemoveAll(dir)
			if prep != nil {
				prep(dir)
			}
			cwd, arg := cwdOf(dir)
			r := run(cwd, 5*time.Minute, nil, loxBin, "--report", arg)
			c.note(t.name+label, true)
			if r.Code != 0 {
				c.addFinding(finding{Signature: "generation-fails-in-variant:" + label,
					Desc:   fmt.Sprintf("lox fails on %s in variant %s: %s", t.name, label, lastLines(string(r.Err), 3)),
					Replay: map[string]any{"target": t.name, "variant": label}})
				return
			}
			got := readGen(dir)
			if ref == nil {
				ref, refReport = got, r.Out
				return
			}
			for _, f := range genFiles {
				if !bytes.Equal(ref[f], got[f]) {
					c.addFinding(finding{Signature: "output-not-deterministic:" + f,
						Desc:   fmt.Sprintf("%s of %s differs between two generations (variant %s)", f, t.name, label),
						Replay: map[string]any{"target": t.name, "variant": label, "file": f, "spec": readFile(filepath.Join(t.dir, "spec.lox"))}})
				}
			}
			if !bytes.Equal(refReport, r.Out) {
				c.addFinding(finding{Signature: "report-not-deterministic",
					Desc:   fmt.Sprintf("--report of %s differs between two generations (variant %s)", t.name, label),
					Replay: map[string]any{"target": t.name, "variant": label}})
			}
		}
		abs := func(dir string) (string, string) { return t.cwd, dir }
		for r := 0; r < reps; r++ {
			variant(fmt.Sprintf("fresh%d", r), func(dir string) {
				for _, f := range genFiles {
					os.Remove(filepath.Join(dir, f))
				}
			}, abs)
		}
		variant("dot", nil, func(dir string) (string, string) { return dir, "." })
		variant("rel", nil, func(dir string) (string, string) { return filepath.Dir(dir), "./" + filepath.Base(dir) })
		variant("own-output-present", func(dir string) {
			for f, b := range ref {
				os.WriteFile(filepath.Join(dir, f), b, 0o644)
			}
		}, abs)
		if ref0 != nil {
			other := ref0
			variant("other-grammars-output-present", func(dir string) {
				for f, b := range other {
					os.WriteFile(filepath.Join(dir, f), b, 0o644)
				}
			}, abs)
		}
		if ti == 0 || ref0 == nil {
			ref0 = ref
		}
		if len(c.cov.Samples) < 3 {
			c.sample(map[string]any{"target": t.name, "generations": reps + 4})
		}
	}
	c.cov.Programs = len(targets)
}
