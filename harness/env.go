package main

import (
	"bytes"
	"crypto/sha256"
	"encoding/hex"
	"fmt"
	"os"
	"os/exec"
	"path/filepath"
	"strings"
	"time"
)

// repoDir: the tree under test (/repo; VERIF_REPO overrides it, used only to try the checks on a scratch
// worktree that carries a seeded change).  verifDir: this framework (the directory bin/check lives in).
var (
	repoDir  = envOr("VERIF_REPO", "/repo")
	verifDir = envOr("VERIF_DIR", "/verif")
)

func envOr(k, d string) string {
	if v := os.Getenv(k); v != "" {
		return v
	}
	return d
}

var (
	binDir = func() string {
		if repoDir == "/repo" {
			return filepath.Join(verifDir, ".cache", "bin")
		}
		h := sha256.Sum256([]byte(repoDir))
		return filepath.Join(verifDir, ".cache", "bin-"+hex.EncodeToString(h[:4]))
	}()
	loxBin     = filepath.Join(binDir, "lox")
	loxverif   = filepath.Join(binDir, "loxverif")
	loxmodel   = filepath.Join(verifDir, "ocaml", "loxmodel")
	scratchTop = "/var/tmp"
)

func goEnv() []string {
	env := os.Environ()
	env = append(env,
		"GOFLAGS=-mod=mod", "GOPROXY=off", "GOSUMDB=off", "GOTOOLCHAIN=local",
		"GOWORK=off", "CGO_ENABLED=0")
	return env
}

type cmdResult struct {
	Out      []byte
	Err      []byte
	Code     int
	TimedOut bool
}

func run(dir string, timeout time.Duration, stdin []byte, name string, args ...string) cmdResult {
	cmd := exec.Command(name, args...)
	cmd.Dir = dir
	cmd.Env = goEnv()
	if stdin != nil {
		cmd.Stdin = bytes.NewReader(stdin)
	}
	var out, errb bytes.Buffer
	cmd.Stdout = &out
	cmd.Stderr = &errb
	if err := cmd.Start(); err != nil {
		return cmdResult{Err: []byte(err.Error()), Code: -1}
	}
	done := make(chan error, 1)
	go func() { done <- cmd.Wait() }()
	res := cmdResult{}
	select {
	case err := <-done:
		if err != nil {
			if ee, ok := err.(*exec.ExitError); ok {
				res.Code = ee.ExitCode()
			} else {
				res.Code = -1
			}
		}
	case <-time.After(timeout):
		cmd.Process.Kill()
		<-done
		res.TimedOut = true
		res.Code = -2
	}
	res.Out = out.Bytes()
	res.Err = errb.Bytes()
	return res
}

// buildTools rebuilds lox and the hook binary from /repo's working tree.
func buildTools() error {
	os.MkdirAll(binDir, 0o755)
	r := run(repoDir, 10*time.Minute, nil, "go", "build", "-o", loxBin, "./cmd/lox")
	if r.Code != 0 {
		return fmt.Errorf("go build ./cmd/lox failed: %s", r.Err)
	}
	r = run(repoDir, 10*time.Minute, nil, "go", "build", "-tags", "verif", "-o", loxverif, "./cmd/loxverif")
	if r.Code != 0 {
		return fmt.Errorf("go build -tags verif ./cmd/loxverif failed: %s", r.Err)
	}
	return nil
}

func scratchDir(prefix string) string {
	d, err := os.MkdirTemp(scratchTop, "verif-"+prefix+"-")
	if err != nil {
		panic(err)
	}
	return d
}

func hashOf(parts ...string) string {
	h := sha256.Sum256([]byte(strings.Join(parts, "\x00")))
	return hex.EncodeToString(h[:6])
}
