# environment shared by setup and checks: offline Go, no network
export GOFLAGS=-mod=mod GOPROXY=off GOSUMDB=off GOTOOLCHAIN=local GOWORK=off
export CARGO_NET_OFFLINE=true PIP_NO_INDEX=1
