(* loxmodel: runs the extracted Gallina models on requests read from stdin,
   one request per line (a command word followed by integers; lists are
   length-prefixed), and prints one answer line per request. *)
open Loxmodel_ext

let rec nat_of_int n = if n <= 0 then O else S (nat_of_int (n - 1))
let int_of_nat n = let rec go acc = function O -> acc | S m -> go (acc + 1) m in go 0 n
let rec pos_of_int n =
  if n = 1 then XH else if n land 1 = 0 then XO (pos_of_int (n lsr 1)) else XI (pos_of_int (n lsr 1))
let z_of_int n = if n = 0 then Z0 else if n > 0 then Zpos (pos_of_int n) else Zneg (pos_of_int (-n))
let rec int_of_pos = function XH -> 1 | XO p -> 2 * int_of_pos p | XI p -> 2 * int_of_pos p + 1
let int_of_z = function Z0 -> 0 | Zpos p -> int_of_pos p | Zneg p -> - (int_of_pos p)

(* request cursor *)
type cur = { toks : string array; mutable i : int }
let next c = let s = c.toks.(c.i) in c.i <- c.i + 1; s
let int c = int_of_string (next c)
let z c = z_of_int (int c)
let nat c = nat_of_int (int c)
let bool c = int c <> 0
let list f c = let n = int c in List.init n (fun _ -> f c)
let range c = let b = z c in let e = z c in (b, e)

let out = Buffer.create 4096
let pi n = Buffer.add_string out (string_of_int n); Buffer.add_char out ' '
let pz x = pi (int_of_z x)
let pn x = pi (int_of_nat x)
let pb b = pi (if b then 1 else 0)
let ps s = Buffer.add_string out s; Buffer.add_char out ' '
let plist f l = pi (List.length l); List.iter f l
let prange (b, e) = pz b; pz e

let rec class_expr c =
  match int c with
  | 0 -> let neg = bool c in let items = list range c in CClass (neg, items)
  | 1 -> let l = class_expr c in let r = class_expr c in CSub (l, r)
  | _ -> let l = class_expr c in let r = class_expr c in CAdd (l, r)

let handlers : (string, cur -> unit) Hashtbl.t = Hashtbl.create 64
let reg name f = Hashtbl.replace handlers name f

let () =
  reg "flatten" (fun c ->
    let l = list range c in
    let (o, log) = flatten_log l in
    plist prange o;
    plist (fun ((a, b), n) -> prange a; prange b; prange n) log);
  reg "subtract" (fun c ->
    let a = list range c in let b = list range c in
    match subtract a b with
    | Some r -> ps "some"; plist prange r
    | None -> ps "none");
  reg "normalize" (fun c ->
    let l = list range c in
    match normalize l with
    | NDone log ->
      ps "done"; plist (fun (((o, a), b), cc) -> prange o; prange a; prange b; prange cc) log;
      plist prange (replay (heap_of l) log)
    | NPanic _ -> ps "panic"
    | NFuel -> ps "fuel");
  reg "class" (fun c ->
    let e = class_expr c in
    match get_ranges e with
    | Some r -> ps "some"; plist prange r
    | None -> ps "none");
  reg "pair" (fun c ->
    let l = list (fun c -> let d = bool c in let r = z c in (d, r)) c in
    plist prange (class_items l));
  reg "unescape" (fun c ->
    let l = list z c in
    match unescape l with
    | UOk r -> ps "ok"; plist (fun (isr, v) -> pb isr; pz v) r
    | UPanic -> ps "panic")

let () =
  try
    while true do
      let line = input_line stdin in
      let toks = Array.of_list (List.filter (fun s -> s <> "") (String.split_on_char ' ' line)) in
      if Array.length toks > 0 then begin
        let c = { toks; i = 0 } in
        let cmd = next c in
        Buffer.clear out;
        (match Hashtbl.find_opt handlers cmd with
         | Some f -> (try f c with e -> Buffer.clear out; ps "exn"; ps (Printexc.to_string e))
         | None -> ps "unknown");
        print_string (Buffer.contents out); print_newline ()
      end
    done
  with End_of_file -> ()
