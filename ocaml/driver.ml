(* loxmodel: runs the extracted Gallina models on requests read from stdin,
   one request per line (a command word followed by integers; lists are
   length-prefixed), and prints one answer line per request. *)
open Loxmodel_ext
type string = Stdlib.String.t
type coq_string = Loxmodel_ext.string

let rec nat_of_int n = if n <= 0 then O else S (nat_of_int (n - 1))
let int_of_nat n = let rec go acc = function O -> acc | S m -> go (acc + 1) m in go 0 n
let rec pos_of_int n =
  if n = 1 then XH else if n land 1 = 0 then XO (pos_of_int (n lsr 1)) else XI (pos_of_int (n lsr 1))
let z_of_int n = if n = 0 then Z0 else if n > 0 then Zpos (pos_of_int n) else Zneg (pos_of_int (-n))
let rec int_of_pos = function XH -> 1 | XO p -> 2 * int_of_pos p | XI p -> 2 * int_of_pos p + 1
let int_of_z = function Z0 -> 0 | Zpos p -> int_of_pos p | Zneg p -> - (int_of_pos p)

(* request cursor *)
type cur = { toks : Stdlib.String.t array; mutable i : int }
let next c = let s = c.toks.(c.i) in c.i <- c.i + 1; s
let int c = int_of_string (next c)
let z c = z_of_int (int c)
let nat c = nat_of_int (int c)
let bool c = int c <> 0
let list f c = let n = int c in Stdlib.List.init n (fun _ -> f c)
let range c = let b = z c in let e = z c in (b, e)

let out = Buffer.create 4096
let pi n = Buffer.add_string out (string_of_int n); Buffer.add_char out ' '
let pz x = pi (int_of_z x)
let pn x = pi (int_of_nat x)
let pb b = pi (if b then 1 else 0)
let ps s = Buffer.add_string out s; Buffer.add_char out ' '
let plist f l = pi (Stdlib.List.length l); Stdlib.List.iter f l
let prange (b, e) = pz b; pz e

let rec class_expr c =
  match int c with
  | 0 -> let neg = bool c in let items = list range c in CClass (neg, items)
  | 1 -> let l = class_expr c in let r = class_expr c in CSub (l, r)
  | _ -> let l = class_expr c in let r = class_expr c in CAdd (l, r)

let handlers : (string, cur -> unit) Hashtbl.t = Hashtbl.create 64
let reg name f = Hashtbl.replace handlers name f

let () =
  reg "flatten" (fun c ->
    let l = list range c in
    let (o, log) = flatten_log l in
    plist prange o;
    plist (fun ((a, b), n) -> prange a; prange b; prange n) log);
  reg "subtract" (fun c ->
    let a = list range c in let b = list range c in
    match subtract a b with
    | Some r -> ps "some"; plist prange r
    | None -> ps "none");
  reg "normalize" (fun c ->
    let l = list range c in
    match x_range_normalize l with
    | NDone log ->
      ps "done"; plist (fun (((o, a), b), cc) -> prange o; prange a; prange b; prange cc) log;
      plist prange (replay (heap_of l) log)
    | NPanic _ -> ps "panic"
    | NFuel -> ps "fuel");
  reg "class" (fun c ->
    let e = class_expr c in
    match get_ranges e with
    | Some r -> ps "some"; plist prange r
    | None -> ps "none");
  reg "pair" (fun c ->
    let l = list (fun c -> let d = bool c in let r = z c in (d, r)) c in
    plist prange (class_items l));
  reg "unescape" (fun c ->
    let l = list z c in
    match unescape l with
    | UOk r -> ps "ok"; plist (fun (isr, v) -> pb isr; pz v) r
    | UPanic -> ps "panic");
  (* classtoks <neg> <n> (<isdash> <bytes>)*: the class the front end builds from the tokens of one [...]:
     toRune per CLASS_CHAR (class_char_rune), x-y pairing (class_items), GetRanges *)
  reg "classtoks" (fun c ->
    let neg = bool c in
    let toks = list (fun c -> let d = bool c in let bs = list z c in (d, bs)) c in
    let rec conv = function
      | [] -> Some []
      | (d, bs) :: r ->
        (match (if d then Some (z_of_int 45) else class_char_rune bs), conv r with
         | Some v, Some l -> Some ((d, v) :: l)
         | _, _ -> None) in
    match conv toks with
    | None -> ps "panic"
    | Some cts ->
      let items = class_items cts in
      ps "items"; plist prange items;
      (match get_ranges (CClass (neg, items)) with
       | Some r -> ps "some"; plist prange r
       | None -> ps "none"));
  (* escape <kind> <bytes>: kind 0 = LITERAL token (fix_literal), 1 = CLASS_CHAR token (unescape), 2 = raw unescape;
     prints the recogniser's verdict for the kind, then ok+bytes or panic *)
  reg "escape" (fun c ->
    let k = int c in
    let l = list z c in
    let wf = match k with 0 -> is_literal_token l | 1 -> is_class_char l | _ -> is_literal_body l in
    pb wf;
    match (if k = 0 then fix_literal l else unescape_bytes l) with
    | Some bs -> ps "ok"; plist pz bs
    | None -> ps "panic")


(* ---- parser tables, grammars, certificates, kept by id ---- *)
let tabs : (int, tables) Hashtbl.t = Hashtbl.create 16
let grams : (int, prod0 list) Hashtbl.t = Hashtbl.create 16
let certs : (int, cert) Hashtbl.t = Hashtbl.create 16

let kind_of_int = function
  | 0 -> KUser | 1 -> KSPrime | 2 -> KOneOrMore | 3 -> KOneOrMoreF | 4 -> KList | 5 -> KZeroOrOne | _ -> KZeroOrMore

let cls_tab : (int, int array) Hashtbl.t = Hashtbl.create 16
let cur_cls : int array ref = ref [||]
let cl p = if p >= 0 && p < Array.length !cur_cls then !cur_cls.(p) else p

let rec ser_val v =
  match v with
  | VNil -> "nil"
  | VTok (ty, id) -> if int_of_z ty = 0 && false then "Z" else "T(" ^ string_of_int (int_of_z ty) ^ "," ^ string_of_int (int_of_nat id) ^ ")"
  | VErr (t, ex) -> "E(" ^ ser_val t ^ ",[" ^ Stdlib.String.concat " " (Stdlib.List.map (fun k -> string_of_int (int_of_z k)) ex) ^ "])"
  | VNode (p, args) -> "N(" ^ Stdlib.String.concat "," (string_of_int (cl (int_of_z p)) :: Stdlib.List.map ser_val args) ^ ")"
  | VList [] -> "Z"
  | VList l -> "L(" ^ Stdlib.String.concat "," (Stdlib.List.map ser_val l) ^ ")"
  | VZero -> "Z"

let discard_fn v =
  match v with
  | VTok (_, _) -> true
  | VNode (p, _) -> (cl (int_of_z p)) mod 2 = 1
  | _ -> false

let ser_event is_user e =
  match e with
  | ERed (p, res) -> if is_user (int_of_z p) then Some ("R" ^ string_of_int (cl (int_of_z p)) ^ "=" ^ ser_val res) else None
  | EBounds (res, b, e) -> Some ("B=" ^ ser_val res ^ ";" ^ ser_val b ^ ";" ^ ser_val e)

let () =
  reg "tables" (fun c ->
    let id = int c in
    let a = list z c in let g = list z c in let r = list z c in let t = list z c in
    let k = list (fun c -> kind_of_int (int c)) c in
    let cls = Array.of_list (list int c) in
    Hashtbl.replace cls_tab id cls;
    Hashtbl.replace tabs id { t_actions = a; t_goto = g; t_rules = r; t_term_counts = t; t_kinds = k };
    ps "ok");
  reg "grammar" (fun c ->
    let id = int c in
    let prods = list (fun c ->
      let l = nat c in
      let rhs = list (fun c -> let is_t = bool c in let i = nat c in if is_t then T i else NT i) c in
      { lhs = l; rhs = rhs }) c in
    Hashtbl.replace grams id prods; ps "ok");
  reg "cert" (fun c ->
    let id = int c in
    let items = list (fun c -> list (fun c -> let p = nat c in let d = nat c in let a = nat c in ((p, d), a)) c) c in
    let nullable = list bool c in
    let first = list (fun c -> list nat c) c in
    Hashtbl.replace certs id { c_items = items; c_nullable = nullable; c_first = first }; ps "ok");
  reg "validate" (fun c ->
    let id = int c in let nterm = nat c in
    let g = Hashtbl.find grams id and tb = Hashtbl.find tabs id and ce = Hashtbl.find certs id in
    pb (validate g tb ce nterm);
    pb (check_arrays g tb ce nterm); pb (check_kinds g tb); pb (check_sprime g);
    pb (check_nullable_first g ce nterm); pb (check_init ce);
    pb (check_items g tb ce nterm); pb (check_rows g tb ce nterm));
  (* termok: the termination condition of Parse/TermCheck.v on the loaded tables *)
  reg "termok" (fun c ->
    let id = int c in let nst = nat c in
    let tb = Hashtbl.find tabs id in
    pb (term_ok tb nst (term_fuel tb nst)));
  reg "parse" (fun c ->
    let id = int c in let eb = bool c in let rc = bool c in let fuel = nat c in
    let w = list z c in
    let tb = Hashtbl.find tabs id in
    cur_cls := (try Hashtbl.find cls_tab id with Not_found -> [||]);
    let is_user p = (match Stdlib.List.nth_opt tb.t_kinds p with Some KUser -> true | _ -> false) in
    let fin tag s =
      ps tag; pn s.pos;
      let evs = Stdlib.List.filter_map (ser_event is_user) (Stdlib.List.rev s.trace) in
      ps ("[" ^ Stdlib.String.concat " " evs ^ "]") in
    match parse tb eb rc discard_fn fuel w with
    | Accept s -> fin "ACC" s
    | Reject s -> fin "REJ" s
    | Continue s -> fin "CONT" s
    | Crash -> ps "CRASH"
    | Fuel -> ps "FUEL")


(* ---- lexer tables, NFAs, rule sets, kept by id ---- *)
let lexmodes : (int, z list list) Hashtbl.t = Hashtbl.create 16
let nfas : (int, (nfa * nat list) list) Hashtbl.t = Hashtbl.create 16
let rulesets : (int, rule list list) Hashtbl.t = Hashtbl.create 16

let nat_list_eqb a b = (Stdlib.List.length a = Stdlib.List.length b) && Stdlib.List.for_all2 (fun x y -> int_of_nat x = int_of_nat y) a b

let rec re_of c =
  match int c with
  | 0 -> REmpty
  | 1 -> REps
  | 2 -> let e = class_expr c in
         (match get_ranges e with Some rs -> RCls rs | None -> failwith "get_ranges: fuel")
  | 3 -> let a = re_of c in let b = re_of c in RCat (a, b)
  | 4 -> let a = re_of c in let b = re_of c in RAlt (a, b)
  | _ -> let a = re_of c in RStar a

let pseg = function
  | SegTok (ty, b, e) -> ps ("T:" ^ string_of_int (int_of_z ty) ^ ":" ^ string_of_int (int_of_z b) ^ ":" ^ string_of_int (int_of_z e))
  | SegDiscard (b, e) -> ps ("D:" ^ string_of_int (int_of_z b) ^ ":" ^ string_of_int (int_of_z e))
  | SegError (b, e) -> ps ("E:" ^ string_of_int (int_of_z b) ^ ":" ^ string_of_int (int_of_z e))
  | SegEOF (b, e) -> ps ("F:" ^ string_of_int (int_of_z b) ^ ":" ^ string_of_int (int_of_z e))

let plres = function
  | LDone segs -> ps "done"; pi (Stdlib.List.length segs); Stdlib.List.iter pseg segs
  | LCrash -> ps "crash"
  | LFuel -> ps "fuel"

let pverdict name closed_fn = function
  | VOk visited -> ps "ok"; pi (Stdlib.List.length visited); pb (closed_fn visited)
  | VDiff (path, why) -> ps "diff"; pz why; plist pz path
  | VFuel -> ps "fuel"

let () =
  reg "lexload" (fun c ->
    let id = int c in
    let ms = list (fun c -> list z c) c in
    Hashtbl.replace lexmodes id ms; ps "ok");
  reg "lexwf" (fun c ->
    let id = int c in
    let ms = Hashtbl.find lexmodes id in
    pb (modes_wf ms);
    plist (fun m -> pb (mode_progress_ok m); pb (mode_terminal_last m); pz (mode_nstates m)) ms);
  reg "nfaload" (fun c ->
    let id = int c in
    let ms = list (fun c ->
      let states = list (fun c ->
        let acc = bool c in let ng = bool c in let rl = nat c in
        let has = bool c in let pos = z c in
        let acts = list (fun c -> let t = z c in let p = z c in (t, p)) c in
        let eps = list nat c in
        let edges = list (fun c -> let lo = z c in let hi = z c in let tos = list nat c in ((lo, hi), tos)) c in
        { n_accept = acc; n_ng = ng; n_rule = rl; n_acts = (if has then Some (pos, acts) else None); n_eps = eps; n_edges = edges }) c in
      let start = list nat c in
      (states, start)) c in
    Hashtbl.replace nfas id ms; ps "ok");
  reg "equivnfa" (fun c ->
    let id = int c in let fuel = nat c in
    let ms = Hashtbl.find lexmodes id and ns = Hashtbl.find nfas id in
    let ra = nfa_auto ns and rs = nfa_start ns in
    pverdict "nfa" (fun v -> closed nat_list_eqb ms ra rs v) (equiv_check nat_list_eqb ms ra rs fuel));
  reg "reload" (fun c ->
    let id = int c in
    let ms = list (fun c -> list (fun c ->
      let r = re_of c in
      let acts = list (fun c -> let t = z c in let p = z c in (t, p)) c in
      let ng = bool c in
      { r_re = r; r_acts = acts; r_ng = ng }) c) c in
    Hashtbl.replace rulesets id ms;
    ps "ok"; plist (fun rules -> pb (wf_rulesb rules)) ms);
  reg "equivre" (fun c ->
    let id = int c in let fuel = nat c in
    let ms = Hashtbl.find lexmodes id and rs = Hashtbl.find rulesets id in
    let ra = re_auto rs and st = re_start rs in
    pverdict "re" (fun v -> closed st_eqb ms ra st v) (equiv_check st_eqb ms ra st fuel));
  let lex_with id fuel inp =
    let ms = Hashtbl.find lexmodes id in
    let log = ref [] in
    let push s r =
      let res = push_rune ms s r in
      (match res with Some (code, _) -> log := (int_of_z r, int_of_z code) :: !log | None -> ());
      res in
    let res = lex_input push (fun s -> s.sm_token) sm_reset sm_init fuel inp in
    plres res;
    ps "|";
    Stdlib.List.iter (fun (r, code) -> ps (string_of_int r ^ ":" ^ string_of_int code)) (Stdlib.List.rev !log) in
  reg "lex" (fun c ->
    let id = int c in let fuel = nat c in
    let inp = list (fun c -> let r = z c in let w = z c in (r, w)) c in
    lex_with id fuel inp);
  (* lexb: the input is BYTES; the model decodes them itself (Utf8Model.decode_all) *)
  reg "lexb" (fun c ->
    let id = int c in
    let bs = list z c in
    let inp = x_utf8_decode_all bs in
    lex_with id (nat_of_int (3 * Stdlib.List.length inp + 8)) inp);
  reg "lexre" (fun c ->
    let id = int c in let fuel = nat c in
    let inp = list (fun c -> let r = z c in let w = z c in (r, w)) c in
    let rs = Hashtbl.find rulesets id in
    plres (g_lex (re_auto rs) (re_start rs) (nat_of_int (Stdlib.List.length rs)) fuel inp))


(* ---- reference LALR(1) construction, FIRST, resolution ---- *)
let pcact = function
  | CShift (t, prods) -> pi 0; pn t; plist pn prods
  | CReduce p -> pi 1; pn p
  | CAccept -> pi 2

let () =
  reg "lalr" (fun c ->
    let id = int c in
    let prec = Array.of_list (list int c) in
    let assoc = Array.of_list (list bool c) in
    let g = Hashtbl.find grams id in
    let precf p = let i = int_of_nat p in if i < Array.length prec then nat_of_int prec.(i) else O in
    let assocf p = let i = int_of_nat p in i < Array.length assoc && assoc.(i) in
    let r = lalr_ref g precf assocf in
    pb r.r_ok; pn r.r_lr1_states; pb r.r_conflicts;
    plist (fun (_, items) -> plist (fun ((p, d), a) -> pn p; pn d; pn a) items) r.r_states;
    plist (fun ((f, x), t) -> pn f; (match x with T i -> pi 1; pn i | NT i -> pi 0; pn i); pn t) r.r_trans;
    plist (fun cr -> pn cr.c_state; pn cr.c_term; plist pcact cr.c_raw; plist pcact cr.c_res; pb cr.c_conflict) r.r_cells);
  reg "firstgo" (fun c ->
    let id = int c in
    let syms = list (fun c -> let is_t = bool c in let i = nat c in if is_t then T i else NT i) c in
    let g = Hashtbl.find grams id in
    plist (fun o -> match o with None -> pi (-1) | Some t -> pn t) (first_go g syms));
  reg "firstspec" (fun c ->
    let id = int c in let n = nat c in
    let g = Hashtbl.find grams id in
    pb (nullable_spec g n); plist pn (first_spec g n))


(* ---- Coq strings, token numbering ---- *)
let coq_of_string (s : string) : coq_string =
  let n = Stdlib.String.length s in
  let rec go i =
    if i >= n then EmptyString
    else
      let c = Char.code s.[i] in
      let b k = (c lsr k) land 1 = 1 in
      String (Ascii (b 0, b 1, b 2, b 3, b 4, b 5, b 6, b 7), go (i + 1)) in
  go 0

let string_of_coq (s : coq_string) : string =
  let b = Buffer.create 16 in
  let rec go = function
    | EmptyString -> ()
    | String (Ascii (b0, b1, b2, b3, b4, b5, b6, b7), r) ->
      let v x k = if x then 1 lsl k else 0 in
      Buffer.add_char b (Char.chr (v b0 0 + v b1 1 + v b2 2 + v b3 3 + v b4 4 + v b5 5 + v b6 6 + v b7 7));
      go r in
  go s; Buffer.contents b

let word c = next c

let rec ndecl c =
  match int c with
  | 0 -> DTok (coq_of_string (word c))
  | 1 -> DExt (list (fun c -> coq_of_string (word c)) c)
  | 2 -> DMode (list ndecl c)
  | _ -> DOther

let () =
  reg "numbering" (fun c ->
    let files = list (fun c -> list ndecl c) c in
    let probes = list z c in
    let ts = terminals files in
    pi (Stdlib.List.length ts);
    Stdlib.List.iter (fun t -> ps (string_of_coq t)) ts;
    Stdlib.List.iter (fun p -> ps (string_of_coq (token_to_string ts p))) probes)


(* ---- precedence climbing reference ---- *)
let rec ser_etree = function
  | TAtom id -> "A" ^ string_of_int (int_of_nat id)
  | TBin (op, l, r) -> "B(" ^ string_of_int (int_of_nat op) ^ "," ^ ser_etree l ^ "," ^ ser_etree r ^ ")"
  | TParen t -> "P(" ^ ser_etree t ^ ")"

let () =
  reg "climb" (fun c ->
    let tbl = list (fun c -> let l = nat c in let r = bool c in { o_level = l; o_right = r }) c in
    let toks = list (fun c -> match int c with
      | 0 -> EAtom (nat c) | 1 -> EOp (nat c) | 2 -> ELParen | _ -> ERParen) c in
    pb (uniformb tbl);
    match climb tbl toks with
    | Some t -> ps (ser_etree t); pb (well_grouped tbl t)
    | None -> ps "none")


(* ---- semantic analysis model (Gen/Analyze.v) ---- *)
let hexstr c : coq_string =
  let w = next c in
  if w = "-" then EmptyString
  else begin
    let n = Stdlib.String.length w / 2 in
    let b = Bytes.create n in
    for i = 0 to n - 1 do
      Bytes.set b i (Char.chr (int_of_string ("0x" ^ Stdlib.String.sub w (2 * i) 2)))
    done;
    coq_of_string (Bytes.to_string b)
  end

let card_of_int = function
  | 0 -> COne | 1 -> CZeroOrOne | 2 -> CZeroOrMore | 3 -> CZeroOrMoreNG | 4 -> COneOrMore | _ -> COneOrMoreNG

let rec a_lterm c =
  match int c with
  | 0 -> LLit (list z c)
  | 1 -> LRef (hexstr c)
  | 2 -> LClass (list range c)
  | _ -> LGroup (a_alts c)
and a_alts c = list (fun c -> list (fun c -> let t = a_lterm c in let k = card_of_int (int c) in (t, k)) c) c

let a_action c =
  match int c with
  | 0 -> ADiscard | 1 -> APush (hexstr c) | 2 -> APop | _ -> AEmit (hexstr c)

let rec a_pterm c =
  match int c with
  | 0 -> PName (hexstr c)
  | 1 -> PAlias (hexstr c)
  | 2 -> PError
  | 3 -> let k = (match int c with 0 -> PZeroOrMore | 1 -> PZeroOrMoreF | 2 -> POneOrMore | _ -> PZeroOrOne) in
         let t = a_pterm c in PCard (k, t)
  | _ -> let e = a_pterm c in let sp = a_pterm c in let o = bool c in PList (e, sp, o)

let rec a_decl c =
  match int c with
  | 0 -> let id = nat c in let n = hexstr c in let e = a_alts c in let a = list a_action c in DToken (id, n, e, a)
  | 1 -> let id = nat c in let e = a_alts c in let a = list a_action c in DFrag (id, e, a)
  | 2 -> let id = nat c in let n = hexstr c in let e = a_alts c in DMacro (id, n, e)
  | 3 -> let id = nat c in let ns = list hexstr c in DExternal (id, ns)
  | 4 -> let id = nat c in let n = hexstr c in let b = list a_decl c in DMode0 (id, n, b)
  | _ -> let id = nat c in let st = bool c in let n = hexstr c in
         let prods = list (fun c -> list a_pterm c) c in DRule (id, st, n, prods)

let dkind_to_int = function
  | KRedefined -> 0 | KBadName -> 1 | KReservedName -> 2 | KUndefined -> 3 | KNotAToken -> 4 | KNotAMacro -> 5
  | KNotRuleOrToken -> 6 | KUnknownAlias -> 7 | KAmbiguousAlias -> 8 | KUndefinedMode -> 9 | KStartRedefined -> 10
  | KStartUndefined -> 11 | KEmptyLiteral -> 12 | KTokenDiscard -> 13 | KTokenEmit -> 14 | KFragTwoDiscard -> 15
  | KFragTwoEmit -> 16 | KFragDiscardAndEmit -> 17 | KMacroCycle -> 18 | KListEntryNotSimple -> 19
  | KListSepNotSimple -> 20 | KOther -> 21 | KBadRange -> 22

let () =
  reg "analyze" (fun c ->
    let sp = list (fun c -> list a_decl c) c in
    pb (well_formed sp); pb (well_formed_weak sp);
    plist (fun (k, oi) -> pi (dkind_to_int k); (match oi with Some i -> pn i | None -> pi (-1))) (analyze sp))


(* ---- action binding model (Gen/Binding.v) ---- *)
let () =
  reg "binding" (fun c ->
    let n = int c in
    let mat c = Array.init n (fun _ -> Array.init n (fun _ -> bool c)) in
    let ident = mat c in
    let assg = mat c in
    let slice = Array.init n (fun _ -> int c) in
    let isif = Array.init n (fun _ -> bool c) in
    let impl = mat c in
    let g2 m a b = let i = int_of_nat a and j = int_of_nat b in i < n && j < n && m.(i).(j) in
    let o = { identical = g2 ident; assignable = g2 assg;
              slice_of = (fun a -> let i = int_of_nat a in if i < n then nat_of_int slice.(i) else nat_of_int n);
              is_interface = (fun a -> let i = int_of_nat a in i < n && isif.(i));
              implements = g2 impl } in
    let tok = nat c in let err = nat c in
    let kind_of = function 0 -> NotGenerated | 1 -> SPrime | 2 -> ZeroOrMore | 3 -> ZeroOrMoreF | 4 -> OneOrMore
                         | 5 -> OneOrMoreF | 6 -> ZeroOrOne | _ -> ListK in
    let rules = list (fun c -> let nm = hexstr c in let k = kind_of (int c) in let ps = list nat c in
                        { br_name = nm; br_kind = k; br_prods = ps }) c in
    let prods = list (fun c -> let r = nat c in let ts = list (fun c -> let b = bool c in let i = nat c in (b, i)) c in
                        { bp_rule = r; bp_terms = ts }) c in
    let ms = list (fun c -> let id = nat c in let nm = hexstr c in let ps = list nat c in let rs = list nat c in
                     { m_id = id; m_name = nm; m_params = ps; m_results = rs }) c in
    match assign_actions o tok err rules prods ms with
    | BOk (b, _) -> ps "ok"; plist (fun (p, m) -> pn p; pn m) b
    | BErr ds -> ps "err"; plist (fun d -> match d with
        | DResultCount m -> pi 0; pn m | DReturnConflict m -> pi 1; pn m | DNoSuchRule m -> pi 2; pn m
        | DRuleMissingMethod r -> pi 3; pn r | DNoMatch p -> pi 4; pn p | DMultipleMatch p -> pi 5; pn p
        | DUnassigned m -> pi 6; pn m) ds
    | BPanic _ -> ps "panic"
    | BIllFormed -> ps "illformed"
    | BFuel -> ps "fuel")


(* ---- row-compressed table encoder (Gen/TableEnc.v) ---- *)
let () =
  reg "tableenc" (fun c ->
    let rows = list (fun c -> let i = nat c in let r = list z c in (i, r)) c in
    match x_table_build rows with
    | Some arr -> ps "some"; plist pz arr
    | None -> ps "none")

(* ---- cardinality sugar (Gen/NormalizeModel.v) and UTF-8 (Lex/Utf8Model.v) ---- *)
let rec sterm c =
  match int c with
  | 0 -> STok (nat c)
  | 1 -> SRule (nat c)
  | 2 -> SErr
  | 3 -> let k = (match int c with 0 -> KOpt | 1 -> KStar | 2 -> KStarF | _ -> KPlus) in
         let x = sterm c in SCard (k, x)
  | _ -> let e = sterm c in let sp = sterm c in let o = bool c in SList (e, sp, o)

let () =
  reg "sugar" (fun c ->
    let start = nat c in
    let rules = list (fun c -> list (fun c -> list sterm c) c) c in
    let g = { sg_rules = rules; sg_start = start } in
    pb (x_sugar_wf g);
    let (prods, hs) = x_sugar_normalize g in
    plist (fun p -> plist pn p) prods;
    plist (fun (h, k) -> pn h; pn k) hs);
  reg "utf8" (fun c ->
    let bs = list z c in
    plist (fun (r, w) -> pz r; pz w) (x_utf8_decode_all bs));
  reg "utf8enc" (fun c -> let r = z c in plist pz (x_utf8_encode_rune r))

let () =
  try
    while true do
      let line = input_line stdin in
      let toks = Array.of_list (Stdlib.List.filter (fun s -> s <> "") (Stdlib.String.split_on_char ' ' line)) in
      if Array.length toks > 0 then begin
        let c = { toks; i = 0 } in
        let cmd = next c in
        Buffer.clear out;
        (match Hashtbl.find_opt handlers cmd with
         | Some f -> (try f c with e -> Buffer.clear out; ps "exn"; ps (Printexc.to_string e))
         | None -> ps "unknown");
        print_string (Buffer.contents out); print_newline ()
      end
    done
  with End_of_file -> ()
